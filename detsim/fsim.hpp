// Simulated file layer (see fsim.cpp).
#ifndef DETSIM_FSIM_HPP
#define DETSIM_FSIM_HPP

#include <string>
#include <vector>

namespace fsim {

struct Op {
  long index;
  std::string kind; // open, write, writev, close, rename
  std::string path;
  long bytes;
  int tag; // set by the scenario (e.g. dump number)
};

// start numbering file-system operations; die at operation `crash_at`
// (-1 = never) with variant 0 = before, 1 = after, 2 = torn write
void arm(long crash_at, int variant, double torn_fraction);
void disarm();
// only files whose path contains `substr` are tracked, and only renames whose
// source or destination contains it are numbered (empty = everything)
void set_filter(const char *substr);
long count();
void set_tag(int tag);
const std::vector< Op > &log();

} // namespace fsim

#endif
