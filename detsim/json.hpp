// Minimal JSON value (parse + dump) for replay files, evidence and configs.
// Objects keep keys sorted (std::map) so that dumps are deterministic.
#ifndef DETSIM_JSON_HPP
#define DETSIM_JSON_HPP

#include <cinttypes>
#include <cmath>
#include <cstdint>
#include <cstdio>
#include <cstdlib>
#include <cstring>
#include <fstream>
#include <map>
#include <sstream>
#include <stdexcept>
#include <string>
#include <vector>

namespace detsim {

class Json {
public:
  enum Type { NUL, BOOL, INT, DBL, STR, ARR, OBJ };
  Type type;
  bool b;
  int64_t i;
  double d;
  std::string s;
  std::vector< Json > a;
  std::map< std::string, Json > o;

  Json() : type(NUL), b(false), i(0), d(0.) {}
  Json(bool v) : type(BOOL), b(v), i(0), d(0.) {}
  Json(int v) : type(INT), b(false), i(v), d(0.) {}
  Json(unsigned v) : type(INT), b(false), i(v), d(0.) {}
  Json(long v) : type(INT), b(false), i(v), d(0.) {}
  Json(unsigned long v) : type(INT), b(false), i((int64_t)v), d(0.) {}
  Json(long long v) : type(INT), b(false), i(v), d(0.) {}
  Json(unsigned long long v) : type(INT), b(false), i((int64_t)v), d(0.) {}
  Json(double v) : type(DBL), b(false), i(0), d(v) {}
  Json(const char *v) : type(STR), b(false), i(0), d(0.), s(v) {}
  Json(const std::string &v) : type(STR), b(false), i(0), d(0.), s(v) {}

  static Json array() {
    Json j;
    j.type = ARR;
    return j;
  }
  static Json object() {
    Json j;
    j.type = OBJ;
    return j;
  }

  bool is_null() const { return type == NUL; }
  bool has(const std::string &k) const {
    return type == OBJ && o.count(k) > 0;
  }
  Json &operator[](const std::string &k) {
    if (type == NUL)
      type = OBJ;
    return o[k];
  }
  const Json &at(const std::string &k) const {
    static Json nul;
    auto it = o.find(k);
    return it == o.end() ? nul : it->second;
  }
  void push(const Json &v) {
    if (type == NUL)
      type = ARR;
    a.push_back(v);
  }
  size_t size() const { return type == ARR ? a.size() : o.size(); }

  int64_t as_int(int64_t def = 0) const {
    if (type == INT)
      return i;
    if (type == DBL)
      return (int64_t)d;
    if (type == BOOL)
      return b;
    return def;
  }
  uint64_t as_u64(uint64_t def = 0) const {
    if (type == INT)
      return (uint64_t)i;
    if (type == STR)
      return strtoull(s.c_str(), nullptr, 0);
    return def;
  }
  double as_double(double def = 0.) const {
    if (type == DBL)
      return d;
    if (type == INT)
      return (double)i;
    return def;
  }
  bool as_bool(bool def = false) const {
    if (type == BOOL)
      return b;
    if (type == INT)
      return i != 0;
    return def;
  }
  std::string as_string(const std::string &def = "") const {
    return type == STR ? s : def;
  }

  static void dump_string(std::string &out, const std::string &v) {
    out += '"';
    for (unsigned char c : v) {
      switch (c) {
      case '"':
        out += "\\\"";
        break;
      case '\\':
        out += "\\\\";
        break;
      case '\n':
        out += "\\n";
        break;
      case '\t':
        out += "\\t";
        break;
      case '\r':
        out += "\\r";
        break;
      default:
        if (c < 0x20) {
          char buf[8];
          snprintf(buf, sizeof buf, "\\u%04x", c);
          out += buf;
        } else
          out += (char)c;
      }
    }
    out += '"';
  }

  void dump_to(std::string &out, int indent, int level) const {
    auto nl = [&](int lv) {
      if (indent >= 0) {
        out += '\n';
        out.append((size_t)(lv * indent), ' ');
      }
    };
    char buf[64];
    switch (type) {
    case NUL:
      out += "null";
      break;
    case BOOL:
      out += b ? "true" : "false";
      break;
    case INT:
      snprintf(buf, sizeof buf, "%" PRId64, i);
      out += buf;
      break;
    case DBL:
      if (std::isfinite(d)) {
        snprintf(buf, sizeof buf, "%.17g", d);
        out += buf;
        if (!strpbrk(buf, ".eEn"))
          out += ".0";
      } else {
        // JSON has no inf/nan: store as string
        out += std::isnan(d) ? "\"nan\"" : (d > 0 ? "\"inf\"" : "\"-inf\"");
      }
      break;
    case STR:
      dump_string(out, s);
      break;
    case ARR: {
      out += '[';
      bool simple = true;
      for (auto &e : a)
        if (e.type == ARR || e.type == OBJ)
          simple = false;
      for (size_t k = 0; k < a.size(); ++k) {
        if (k)
          out += simple ? ", " : ",";
        if (!simple)
          nl(level + 1);
        a[k].dump_to(out, indent, level + 1);
      }
      if (!simple && !a.empty())
        nl(level);
      out += ']';
      break;
    }
    case OBJ: {
      out += '{';
      bool first = true;
      for (auto &kv : o) {
        if (!first)
          out += ',';
        first = false;
        nl(level + 1);
        dump_string(out, kv.first);
        out += indent >= 0 ? ": " : ":";
        kv.second.dump_to(out, indent, level + 1);
      }
      if (!o.empty())
        nl(level);
      out += '}';
      break;
    }
    }
  }
  std::string dump(int indent = -1) const {
    std::string out;
    dump_to(out, indent, 0);
    return out;
  }

  // ---- parser ----
  struct Parser {
    const char *p, *end;
    void ws() {
      while (p < end && (*p == ' ' || *p == '\n' || *p == '\t' || *p == '\r'))
        ++p;
    }
    [[noreturn]] void fail(const char *m) {
      throw std::runtime_error(std::string("json: ") + m);
    }
    Json value() {
      ws();
      if (p >= end)
        fail("eof");
      char c = *p;
      if (c == '{') {
        ++p;
        Json j = Json::object();
        ws();
        if (p < end && *p == '}') {
          ++p;
          return j;
        }
        for (;;) {
          ws();
          std::string k = str();
          ws();
          if (p >= end || *p != ':')
            fail("expected :");
          ++p;
          j.o[k] = value();
          ws();
          if (p < end && *p == ',') {
            ++p;
            continue;
          }
          if (p < end && *p == '}') {
            ++p;
            return j;
          }
          fail("expected , or }");
        }
      }
      if (c == '[') {
        ++p;
        Json j = Json::array();
        ws();
        if (p < end && *p == ']') {
          ++p;
          return j;
        }
        for (;;) {
          j.a.push_back(value());
          ws();
          if (p < end && *p == ',') {
            ++p;
            continue;
          }
          if (p < end && *p == ']') {
            ++p;
            return j;
          }
          fail("expected , or ]");
        }
      }
      if (c == '"')
        return Json(str());
      if (!strncmp(p, "true", 4) && end - p >= 4) {
        p += 4;
        return Json(true);
      }
      if (!strncmp(p, "false", 5) && end - p >= 5) {
        p += 5;
        return Json(false);
      }
      if (!strncmp(p, "null", 4) && end - p >= 4) {
        p += 4;
        return Json();
      }
      // number
      const char *q = p;
      bool isd = false;
      if (*q == '-' || *q == '+')
        ++q;
      while (q < end && (isdigit((unsigned char)*q) || *q == '.' ||
                         *q == 'e' || *q == 'E' || *q == '-' || *q == '+')) {
        if (*q == '.' || *q == 'e' || *q == 'E')
          isd = true;
        ++q;
      }
      if (q == p)
        fail("bad value");
      std::string t(p, q);
      p = q;
      if (isd)
        return Json(strtod(t.c_str(), nullptr));
      return Json((long long)strtoll(t.c_str(), nullptr, 10));
    }
    std::string str() {
      if (p >= end || *p != '"')
        fail("expected string");
      ++p;
      std::string r;
      while (p < end && *p != '"') {
        if (*p == '\\') {
          ++p;
          if (p >= end)
            fail("eof in string");
          switch (*p) {
          case 'n':
            r += '\n';
            break;
          case 't':
            r += '\t';
            break;
          case 'r':
            r += '\r';
            break;
          case 'b':
            r += '\b';
            break;
          case 'f':
            r += '\f';
            break;
          case 'u': {
            if (end - p < 5)
              fail("bad \\u");
            unsigned v = (unsigned)strtoul(std::string(p + 1, p + 5).c_str(),
                                           nullptr, 16);
            p += 4;
            if (v < 0x80)
              r += (char)v;
            else if (v < 0x800) {
              r += (char)(0xC0 | (v >> 6));
              r += (char)(0x80 | (v & 0x3F));
            } else {
              r += (char)(0xE0 | (v >> 12));
              r += (char)(0x80 | ((v >> 6) & 0x3F));
              r += (char)(0x80 | (v & 0x3F));
            }
            break;
          }
          default:
            r += *p;
          }
          ++p;
        } else
          r += *p++;
      }
      if (p >= end)
        fail("unterminated string");
      ++p;
      return r;
    }
  };

  static Json parse(const std::string &text) {
    Parser ps{text.data(), text.data() + text.size()};
    Json j = ps.value();
    ps.ws();
    return j;
  }
  static Json parse_file(const std::string &path) {
    std::ifstream f(path);
    if (!f)
      throw std::runtime_error("json: cannot open " + path);
    std::stringstream ss;
    ss << f.rdbuf();
    return parse(ss.str());
  }
  bool write_file(const std::string &path, int indent = 1) const {
    std::ofstream f(path);
    if (!f)
      return false;
    f << dump(indent) << "\n";
    return (bool)f;
  }
};

// doubles that must survive a round trip bit for bit are stored as hex strings
inline std::string dbl_bits(double v) {
  uint64_t u;
  memcpy(&u, &v, 8);
  char buf[32];
  snprintf(buf, sizeof buf, "0x%016" PRIx64, u);
  return buf;
}
inline double bits_dbl(const std::string &s) {
  uint64_t u = strtoull(s.c_str(), nullptr, 16);
  double v;
  memcpy(&v, &u, 8);
  return v;
}

} // namespace detsim

#endif
