// Simulated wall clock: gettimeofday / time / clock_gettime(CLOCK_REALTIME)
// defined in the executable preempt libc for our objects, libstdc++ and
// libhdf5. While the simulated clock is disabled they pass through to the
// kernel, so the driver's own timing is real.
#include "sim.hpp"

#include <cmath>
#include <ctime>
#include <sys/syscall.h>
#include <sys/time.h>
#include <unistd.h>

extern "C" {

int gettimeofday(struct timeval *tv, void *tz) noexcept {
  (void)tz;
  if (!detsim::clock_enabled()) {
    struct timespec ts;
    syscall(SYS_clock_gettime, CLOCK_REALTIME, &ts);
    if (tv != nullptr) {
      tv->tv_sec = ts.tv_sec;
      tv->tv_usec = ts.tv_nsec / 1000;
    }
    return 0;
  }
  if (tv != nullptr) {
    double t = detsim::clock_now();
    double s = std::floor(t);
    tv->tv_sec = (time_t)s;
    tv->tv_usec = (suseconds_t)((t - s) * 1e6);
  }
  return 0;
}

time_t time(time_t *tloc) noexcept {
  time_t r;
  if (!detsim::clock_enabled()) {
    struct timespec ts;
    syscall(SYS_clock_gettime, CLOCK_REALTIME, &ts);
    r = ts.tv_sec;
  } else {
    r = (time_t)std::floor(detsim::clock_now());
  }
  if (tloc)
    *tloc = r;
  return r;
}

int clock_gettime(clockid_t clk, struct timespec *ts) noexcept {
  if (clk == CLOCK_REALTIME && detsim::clock_enabled()) {
    double t = detsim::clock_now();
    double s = std::floor(t);
    ts->tv_sec = (time_t)s;
    ts->tv_nsec = (long)((t - s) * 1e9);
    return 0;
  }
  return (int)syscall(SYS_clock_gettime, clk, ts);
}
}
