// Simulated file layer: fopen64 / write / writev / fclose / rename / remove
// defined in the executable preempt libc for libstdc++'s basic_filebuf (that
// is how std::ofstream reaches the kernel) and for std::rename. Every
// operation on a tracked file is numbered; at a chosen number the process
// dies (_exit) before the operation, after it, or - for writes - after a
// prefix of the bytes (torn write). What was handed to the kernel survives,
// what still sat in a stream buffer is lost: the crash model of C14/C09.
#include "fsim.hpp"

#include <cerrno>
#include <cstdarg>
#include <cstdio>
#include <cstdlib>
#include <cstring>
#include <dlfcn.h>
#include <fcntl.h>
#include <sys/syscall.h>
#include <sys/uio.h>
#include <unistd.h>

namespace fsim {

static bool g_armed = false;
static long g_count = 0;
static long g_crash_at = -1;
static int g_variant = 0; // 0 before, 1 after, 2 torn
static double g_torn_fraction = 0.5;
static int g_tracked[64];
static int g_ntracked = 0;
static std::vector< Op > g_log;
static int g_tag = 0;
static char g_filter[128] = "";

void arm(long crash_at, int variant, double torn_fraction) {
  g_armed = true;
  g_count = 0;
  g_crash_at = crash_at;
  g_variant = variant;
  g_torn_fraction = torn_fraction;
  g_ntracked = 0;
  g_log.clear();
}
void disarm() { g_armed = false; }
void set_filter(const char *substr) {
  snprintf(g_filter, sizeof g_filter, "%s", substr ? substr : "");
}
static bool matches(const char *path) {
  return g_filter[0] == 0 || (path && strstr(path, g_filter) != nullptr);
}
long count() { return g_count; }
void set_tag(int tag) { g_tag = tag; }
const std::vector< Op > &log() { return g_log; }

static bool tracked(int fd) {
  for (int k = 0; k < g_ntracked; ++k)
    if (g_tracked[k] == fd)
      return true;
  return false;
}
static void track(int fd) {
  if (g_ntracked < 64)
    g_tracked[g_ntracked++] = fd;
}
static void untrack(int fd) {
  for (int k = 0; k < g_ntracked; ++k)
    if (g_tracked[k] == fd) {
      g_tracked[k] = g_tracked[--g_ntracked];
      return;
    }
}

// returns: 0 = proceed normally, 1 = crash before, 2 = crash after, 3 = torn
static int next_op(const char *kind, const char *path, long bytes) {
  const long idx = g_count++;
  Op op;
  op.index = idx;
  op.kind = kind;
  op.path = path ? path : "";
  op.bytes = bytes;
  op.tag = g_tag;
  g_log.push_back(op);
  if (idx != g_crash_at)
    return 0;
  if (g_variant == 0)
    return 1;
  if (g_variant == 2 && bytes > 1)
    return 3;
  return 2;
}

[[noreturn]] static void die() { syscall(SYS_exit_group, 137); __builtin_unreachable(); }

} // namespace fsim

using namespace fsim;

extern "C" {

FILE *fopen64(const char *path, const char *mode) {
  typedef FILE *(*fn_t)(const char *, const char *);
  static fn_t real = (fn_t)dlsym(RTLD_NEXT, "fopen64");
  const bool writing = mode && (strchr(mode, 'w') || strchr(mode, 'a') ||
                                strchr(mode, '+'));
  if (!g_armed || !writing || !matches(path))
    return real(path, mode);
  const int what = next_op("open", path, 0);
  if (what == 1)
    die();
  FILE *f = real(path, mode);
  if (f)
    track(fileno(f));
  if (what >= 2)
    die();
  return f;
}

FILE *fopen(const char *path, const char *mode) { return fopen64(path, mode); }

ssize_t write(int fd, const void *buf, size_t n) {
  if (!g_armed || !tracked(fd))
    return syscall(SYS_write, fd, buf, n);
  const int what = next_op("write", "", (long)n);
  if (what == 1)
    die();
  if (what == 3) {
    size_t part = (size_t)((double)n * g_torn_fraction);
    if (part >= n)
      part = n - 1;
    syscall(SYS_write, fd, buf, part);
    die();
  }
  ssize_t r = syscall(SYS_write, fd, buf, n);
  if (what == 2)
    die();
  return r;
}

ssize_t writev(int fd, const struct iovec *iov, int cnt) {
  if (!g_armed || !tracked(fd))
    return syscall(SYS_writev, fd, iov, cnt);
  long total = 0;
  for (int k = 0; k < cnt; ++k)
    total += (long)iov[k].iov_len;
  const int what = next_op("writev", "", total);
  if (what == 1)
    die();
  if (what == 3) {
    long part = (long)((double)total * g_torn_fraction);
    if (part >= total)
      part = total - 1;
    for (int k = 0; k < cnt && part > 0; ++k) {
      long len = (long)iov[k].iov_len < part ? (long)iov[k].iov_len : part;
      syscall(SYS_write, fd, iov[k].iov_base, (size_t)len);
      part -= len;
    }
    die();
  }
  ssize_t r = syscall(SYS_writev, fd, iov, cnt);
  if (what == 2)
    die();
  return r;
}

int fclose(FILE *f) {
  typedef int (*fn_t)(FILE *);
  static fn_t real = (fn_t)dlsym(RTLD_NEXT, "fclose");
  if (!g_armed || !f || !tracked(fileno(f)))
    return real(f);
  const int fd = fileno(f);
  const int what = next_op("close", "", 0);
  if (what == 1)
    die();
  untrack(fd);
  int r = real(f);
  if (what >= 2)
    die();
  return r;
}

int rename(const char *from, const char *to) {
  if (!g_armed || (!matches(from) && !matches(to)))
    return (int)syscall(SYS_rename, from, to);
  char both[1024];
  snprintf(both, sizeof both, "%s -> %s", from, to);
  const int what = next_op("rename", both, 0);
  if (what == 1)
    die();
  int r = (int)syscall(SYS_rename, from, to);
  if (what >= 2)
    die();
  return r;
}
}
