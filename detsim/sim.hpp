// detsim: deterministic simulator core for CMacIonize.
//
// Owns: (1) every scheduling decision inside `#pragma omp parallel` regions
// (own GOMP_parallel / omp_* surface, threads are ucontext fibers run by one
// OS thread), with the code's AtomicValue operations as scheduling points
// (hook H1 in /repo/src/AtomicValue.hpp), (2) the simulated CPU cycle counter
// (hook H8) and wall clock (simlibc.cpp), (3) an event-log hash used as the
// determinism gate, (4) probes.
#ifndef DETSIM_SIM_HPP
#define DETSIM_SIM_HPP

#include "json.hpp"

#include <cstdint>
#include <functional>
#include <map>
#include <string>
#include <utility>
#include <vector>

namespace detsim {

// ---------------------------------------------------------------- PRNG ----
inline uint64_t splitmix64(uint64_t &s) {
  uint64_t z = (s += 0x9E3779B97F4A7C15ull);
  z = (z ^ (z >> 30)) * 0xBF58476D1CE4E5B9ull;
  z = (z ^ (z >> 27)) * 0x94D049BB133111EBull;
  return z ^ (z >> 31);
}
inline uint64_t mix64(uint64_t a, uint64_t b) {
  uint64_t s = a ^ (b * 0xD6E8FEB86659FD93ull + 0x9E3779B97F4A7C15ull);
  splitmix64(s);
  return splitmix64(s);
}
struct Rng {
  uint64_t s;
  explicit Rng(uint64_t seed = 1) : s(seed) {}
  uint64_t next() { return splitmix64(s); }
  // uniform in [0,n)
  uint64_t below(uint64_t n) { return n ? next() % n : 0; }
  // inclusive range
  long range(long lo, long hi) {
    return hi <= lo ? lo : lo + (long)below((uint64_t)(hi - lo + 1));
  }
  double unit() { return (double)(next() >> 11) * (1.0 / 9007199254740992.0); }
  bool chance(double p) { return unit() < p; }
  double uniform(double lo, double hi) { return lo + (hi - lo) * unit(); }
  template < typename T > const T &pick(const std::vector< T > &v) {
    return v[below(v.size())];
  }
};

// ------------------------------------------------------------ schedule ----
enum Policy { POL_UNIFORM = 0, POL_BURST, POL_PCT, POL_RR, POL_REPLAY, POL_RELEASE };

struct Sched {
  uint64_t seed = 1;
  int policy = POL_UNIFORM;
  double burst_p = 0.125;         // POL_BURST: probability of a preemption
  int pct_d = 2;                  // POL_PCT: number of priority change points
  uint64_t pct_horizon = 20000;   // POL_PCT: change points drawn in [0,horizon)
  int rr_q = 1;                   // POL_RR: quantum
  bool event_points = false;      // are packet/task events scheduling points
  bool plain_points = true;       // are the optional plain-read points active
  // liveness: a run is declared non-terminating when `budget` scheduling
  // points pass without any global progress event (the second half of them
  // under the fair uniform policy); a run that keeps making progress is
  // abandoned as inconclusive after `total_cap` points
  uint64_t budget = 20000000ull;
  uint64_t total_cap = 600000000ull;
  uint64_t demote_after = 300;    // PCT: demote after this many idle points
  int ticks_jitter = 0;           // cpucycle jitter amplitude
  // POL_REPLAY: sparse list of (decision index, fiber)
  std::vector< std::pair< uint64_t, int > > switches;

  Json to_json(bool with_switches = true) const;
  static Sched from_json(const Json &j);
  // draw a policy + parameters (swarm style)
  static Sched draw(Rng &rng, uint64_t budget);
  std::string describe() const;
};

struct RunStats {
  uint64_t hash = 0;
  uint64_t points = 0;    // decision points (regions with >1 fiber)
  uint64_t switches = 0;  // context switches actually performed
  uint64_t regions = 0;   // parallel regions executed
  uint64_t max_team = 0;
  bool aborted = false;   // run was cut short (see inconclusive)
  bool inconclusive = false; // cut short by total_cap while still progressing
  bool fair_phase = false; // second half of the budget was entered
  std::string abort_reason;
  std::vector< std::pair< uint64_t, int > > executed; // non-default decisions
  std::map< std::string, uint64_t > probes;
};

class Listener {
public:
  virtual ~Listener() {}
  virtual void on_event(int kind, const void *a, const void *b, long x,
                        long y) {}
  // called after every AtomicValue operation (also outside regions)
  virtual void on_atomic(const void *addr, int op, long pre, long post) {}
};

// start / end one simulated run
void run_begin(const Sched &s, Listener *l);
RunStats run_end();
// execute body; returns false when the run was aborted by the budget
bool guarded(const std::function< void() > &body);

// inside a run
int current_fiber();      // 0 outside regions
int team_size();          // 1 outside regions
bool in_region();
uint64_t now_seq();       // global event sequence number (monotone)
void fold(uint64_t x);    // fold into the event-log hash
void fold_str(const char *s);
void probe(const char *name, uint64_t n = 1);
uint64_t probe_count(const char *name);
void probe_reset(const char *name); // current value in this run
void mark_progress();     // current fiber did useful work
void global_progress();   // the system as a whole made progress (liveness)
void request_abort();     // leave the parallel region at the next scheduling point
void harness_yield(const void *addr = nullptr); // explicit scheduling point
int last_unlock_holder();                       // who held the lock released last (-1: nobody)
int lock_holder(const void *addr);              // fiber holding lock, or -1
// lock tracking at the level of individual std::atomic operations (used by
// the tsan shim; switches off the inference from hook H1's pre/post values)
void set_atomic_level(bool on);
void note_lock(const void *addr, int what); // 1 acquired, 0 released, -1 failed
void set_default_threads(int n);
int default_threads();
// run fn on `n` fibers under the scheduler (what GOMP_parallel does)
void parallel(int n, const std::function< void(int) > &fn);

// make uninitialised memory deterministic and hostile: fill the unused part
// of the current stack and (through M_PERTURB) every malloc'd block with the
// given non-zero byte, so that a decision taken on uninitialised memory
// behaves the same in a reused worker and in a fresh replay process
void scrub_memory(int byte);
// memcheck errors reported so far in this process (0 outside valgrind)
long valgrind_errors();
bool on_valgrind();

// simulated clocks
void clock_set(double t);
void clock_advance(double dt);
double clock_now();
void clock_enable(bool on); // when off, libc clock calls pass through
bool clock_enabled();

inline uint64_t fnv1a(uint64_t h, uint64_t x) {
  for (int k = 0; k < 8; ++k) {
    h ^= (x >> (8 * k)) & 0xff;
    h *= 0x100000001B3ull;
  }
  return h;
}
inline uint64_t fnv1a_bytes(uint64_t h, const void *p, size_t n) {
  const unsigned char *c = (const unsigned char *)p;
  for (size_t k = 0; k < n; ++k) {
    h ^= c[k];
    h *= 0x100000001B3ull;
  }
  return h;
}
const uint64_t FNV_INIT = 0xCBF29CE484222325ull;

} // namespace detsim

#endif
