// Generic check driver: seeded batch over worker processes, determinism gate,
// minimisation, replay files, known findings, evidence.
#ifndef DETSIM_DRIVER_HPP
#define DETSIM_DRIVER_HPP

#include "json.hpp"
#include "sim.hpp"

#include <string>
#include <vector>

namespace detsim {

struct Outcome {
  std::string vclass;  // "" = property held
  std::string message; // human readable, deterministic
  uint64_t hash = 0;   // event-log hash (determinism gate)
  bool nontrivial = false;
  // the run was cut short (longjmp out of the simulated threads): the
  // process must not be reused for another run
  bool restart_worker = false;
  Json stats;          // flat object of integer counters, summed over runs
  Json signature;      // flat object used to match known findings
  std::vector< std::pair< uint64_t, int > > executed; // schedule decisions
  // notes: counted remarks that are not violations
  std::vector< std::string > notes;
};

class Engine {
public:
  virtual ~Engine() {}
  virtual std::string property() const = 0;
  virtual std::string level() const { return "exploration"; }
  // run budget per tier: {runs, seconds}
  virtual void budget(const std::string &tier, uint64_t &runs,
                      double &seconds) const = 0;
  virtual int watchdog_seconds() const { return 60; }
  virtual int workers() const { return 16; }
  // called once in every worker / child before the first run
  virtual void setup() {}
  // generate case number `index` of the batch
  virtual Json generate(uint64_t run_seed, const std::string &tier,
                        uint64_t index) = 0;
  // directed cases that are always part of a batch (e.g. known findings)
  virtual std::vector< Json > directed(const std::string &tier) {
    return std::vector< Json >();
  }
  virtual Outcome execute(const Json &cse) = 0;
  // smaller variants of a failing case, most aggressive first
  virtual std::vector< Json > shrink(const Json &cse) {
    return std::vector< Json >();
  }
  // static description for the evidence file
  virtual void describe(Json &coverage, Json &assumptions) const = 0;
  // name of the key in the case that holds the Sched json ("" = none)
  virtual std::string sched_key() const { return "sched"; }
  // Classes whose very content is "two executions of the same case differ"
  // (run-to-run reproducibility, decisions on uninitialised memory): the
  // determinism gate cannot demand identical event-log hashes from a system
  // under test that is itself nondeterministic; for these classes the
  // violation must reproduce as a class in both fresh re-runs and in the
  // fresh-process replay.
  virtual bool hash_free_class(const std::string &vclass) const {
    (void)vclass;
    return false;
  }
};

int check_main(int argc, char **argv, Engine &engine);

// helpers for engines
std::string scratch_dir();
// memcheck (VERIF_MODE=valgrind): mark before a run, ask afterwards
void valgrind_mark();
long valgrind_report(std::string &text); // per-process scratch directory (created)
double wall_now();

} // namespace detsim

#endif
