// detsim core: fibers, scheduler, GOMP/omp surface, hook entry points.
#include "sim.hpp"

#include "VerifHooks.hpp" // /repo/src: operation and event codes

#include <algorithm>
#include <csetjmp>
#include <malloc.h>
#include <cstdio>
#include <cstdlib>
#include <cstring>
#include <sys/mman.h>
#include <ucontext.h>
#include <unistd.h>
#include <unordered_map>

#if defined(__SANITIZE_ADDRESS__)
#define DETSIM_ASAN 1
extern "C" {
void __sanitizer_start_switch_fiber(void **fake_stack_save, const void *bottom,
                                    size_t size);
void __sanitizer_finish_switch_fiber(void *fake_stack_save,
                                     const void **bottom_old,
                                     size_t *size_old);
}
#endif

#if defined(DETSIM_VALGRIND)
#include <valgrind/memcheck.h>
#include <valgrind/valgrind.h>
#endif

namespace detsim {

void fiber_exit_decision(int me);

// ----------------------------------------------------------------- Sched ---
Json Sched::to_json(bool with_switches) const {
  Json j = Json::object();
  j["seed"] = Json(std::to_string(seed)); // u64 as string
  j["policy"] = policy;
  j["burst_p"] = burst_p;
  j["pct_d"] = pct_d;
  j["pct_horizon"] = (long long)pct_horizon;
  j["rr_q"] = rr_q;
  j["plain_points"] = plain_points;
  j["event_points"] = event_points;
  j["budget"] = (long long)budget;
  j["total_cap"] = (long long)total_cap;
  j["demote_after"] = (long long)demote_after;
  j["ticks_jitter"] = ticks_jitter;
  if (with_switches && policy == POL_REPLAY) {
    Json a = Json::array();
    for (auto &p : switches) {
      a.push((long long)p.first);
      a.push(p.second);
    }
    j["switches"] = a;
  }
  return j;
}

Sched Sched::from_json(const Json &j) {
  Sched s;
  s.seed = j.at("seed").as_u64(1);
  s.policy = (int)j.at("policy").as_int(POL_UNIFORM);
  s.burst_p = j.at("burst_p").as_double(0.125);
  s.pct_d = (int)j.at("pct_d").as_int(2);
  s.pct_horizon = (uint64_t)j.at("pct_horizon").as_int(20000);
  s.rr_q = (int)j.at("rr_q").as_int(1);
  s.plain_points = j.at("plain_points").as_bool(true);
  s.event_points = j.at("event_points").as_bool(false);
  s.budget = (uint64_t)j.at("budget").as_int(20000000);
  s.total_cap = (uint64_t)j.at("total_cap").as_int(600000000);
  s.demote_after = (uint64_t)j.at("demote_after").as_int(300);
  s.ticks_jitter = (int)j.at("ticks_jitter").as_int(0);
  const Json &a = j.at("switches");
  for (size_t k = 0; k + 1 < a.a.size(); k += 2)
    s.switches.push_back(std::make_pair((uint64_t)a.a[k].as_int(),
                                        (int)a.a[k + 1].as_int()));
  return s;
}

Sched Sched::draw(Rng &rng, uint64_t budget) {
  Sched s;
  s.seed = rng.next();
  s.budget = budget;
  int r = (int)rng.below(12);
  if (r >= 10) {
    // preempt right after a release: the window between "gave the resource
    // back" and "finished using it" is where atomicity mistakes live
    s.policy = POL_RELEASE;
    static const double ps[] = {0.5, 0.125, 1. / 64.};
    s.burst_p = ps[rng.below(3)];
  } else if (r < 3) {
    s.policy = POL_UNIFORM;
  } else if (r < 6) {
    s.policy = POL_BURST;
    static const double ps[] = {0.5, 0.125, 1. / 64., 1. / 512.};
    s.burst_p = ps[rng.below(4)];
  } else if (r < 9) {
    s.policy = POL_PCT;
    s.pct_d = (int)rng.range(1, 4);
    static const uint64_t hs[] = {300, 3000, 30000, 300000};
    s.pct_horizon = hs[rng.below(4)];
    static const uint64_t ds[] = {40, 200, 1000};
    s.demote_after = ds[rng.below(3)];
  } else {
    s.policy = POL_RR;
    s.rr_q = (int)rng.range(1, 40);
  }
  s.plain_points = rng.chance(0.5);
  s.event_points = rng.chance(0.6);
  s.ticks_jitter = rng.chance(0.5) ? (int)rng.range(1, 1000) : 0;
  return s;
}

std::string Sched::describe() const {
  char buf[128];
  switch (policy) {
  case POL_UNIFORM:
    snprintf(buf, sizeof buf, "uniform");
    break;
  case POL_BURST:
    snprintf(buf, sizeof buf, "burst(p=%g)", burst_p);
    break;
  case POL_PCT:
    snprintf(buf, sizeof buf, "pct(d=%d,h=%llu)", pct_d,
             (unsigned long long)pct_horizon);
    break;
  case POL_RR:
    snprintf(buf, sizeof buf, "rr(q=%d)", rr_q);
    break;
  case POL_RELEASE:
    snprintf(buf, sizeof buf, "after-release(p=%g)", burst_p);
    break;
  default:
    snprintf(buf, sizeof buf, "replay(%zu switches)", switches.size());
  }
  return buf;
}

// ----------------------------------------------------------------- state ---
namespace {

const size_t STACK_SIZE = 8u << 20;

struct Fiber {
  ucontext_t ctx;
  char *stack = nullptr;
  bool done = true;
  uint64_t fail_streak = 0;  // consecutive failed lock attempts
  uint64_t idle_points = 0;  // points since last progress
  uint64_t consec = 0;       // consecutive points without being switched out
  bool after_release = false; // last completed operation was an unlock
  long priority = 0;         // PCT
#ifdef DETSIM_ASAN
  void *fake_stack = nullptr;
#endif
#ifdef DETSIM_VALGRIND
  unsigned vg_id = 0;
#endif
};

struct Pending {
  // pre value of the operation announced by the last yield of a fiber
  const void *addr = nullptr;
  long pre = 0;
};

struct Sim {
  bool active = false;
  Sched sched;
  Listener *listener = nullptr;
  Rng rng_sched, rng_fair, rng_tick;
  RunStats stats;
  uint64_t seq = 0;       // global sequence number
  uint64_t decisions = 0; // decision index (replay key)
  size_t replay_pos = 0;
  uint64_t last_progress = 0;
  bool abort_requested = false;
  // region
  bool region = false;
  int team = 1;
  int cur = 0;
  std::vector< Fiber > fibers;
  std::vector< char * > stack_pool;
  ucontext_t main_ctx;
#ifdef DETSIM_ASAN
  void *main_fake = nullptr;
  const void *main_bottom = nullptr;
  size_t main_size = 0;
  bool main_known = false;
#endif
  std::function< void(int) > region_fn;
  void (*gomp_fn)(void *) = nullptr;
  void *gomp_data = nullptr;
  // pct
  std::vector< uint64_t > change_points;
  size_t change_pos = 0;
  long low_priority = 0;
  // locks
  std::unordered_map< const void *, int > holders;
  int last_unlock_holder = -1; // holder of the lock the last UNLOCK released
  std::vector< Pending > pending; // per fiber
  Pending pending_serial;
  // abort
  bool aborting = false;
  bool have_guard = false;
  jmp_buf guard;
  // misc
  int default_threads = 1;
  bool atomic_level = false;
  int stack_fill = 0;
  uint64_t ticks = 0;
  double clock = 1.6e9;
  bool clock_on = false;
};

Sim G;

inline void fold_raw(uint64_t x) { G.stats.hash = fnv1a(G.stats.hash, x); }

char *get_stack() {
  if (!G.stack_pool.empty()) {
    char *s = G.stack_pool.back();
    G.stack_pool.pop_back();
    return s;
  }
  void *p = mmap(nullptr, STACK_SIZE, PROT_READ | PROT_WRITE,
                 MAP_PRIVATE | MAP_ANONYMOUS | MAP_NORESERVE, -1, 0);
  if (p == MAP_FAILED) {
    perror("detsim: mmap stack");
    _exit(3);
  }
  return (char *)p;
}


void fiber_main() {
#ifdef DETSIM_ASAN
  {
    // the stack we came from is the main stack only for the first fiber of
    // a region; later fibers are started from another fiber
    const void *from_bottom = nullptr;
    size_t from_size = 0;
    __sanitizer_finish_switch_fiber(nullptr, &from_bottom, &from_size);
    if (!G.main_known) {
      G.main_bottom = from_bottom;
      G.main_size = from_size;
      G.main_known = true;
    }
  }
#endif
  const int me = G.cur;
  if (G.gomp_fn)
    G.gomp_fn(G.gomp_data);
  else
    G.region_fn(me);
  // fiber exit = decision point
  G.fibers[me].done = true;
  detsim::fiber_exit_decision(me);
  // not reached
  abort();
}

// default (replay) rule: what happens without an explicit decision
int default_choice(bool cur_live) {
  const int n = G.team;
  if (cur_live) {
    Fiber &f = G.fibers[G.cur];
    if (f.fail_streak < 64 && f.consec < 200000)
      return G.cur;
  }
  for (int k = 1; k <= n; ++k) {
    int c = (G.cur + k) % n;
    if (!G.fibers[c].done)
      return c;
  }
  return -1;
}

int uniform_live(Rng &r) {
  int live[64], nl = 0;
  for (int k = 0; k < G.team; ++k)
    if (!G.fibers[k].done)
      live[nl++] = k;
  if (nl == 0)
    return -1;
  return live[r.below((uint64_t)nl)];
}

// choose the fiber to run next; cur_live tells whether the current fiber can
// continue. Returns -1 if no fiber is live.
int decide(bool cur_live) {
  const uint64_t idx = G.decisions++;
  ++G.stats.points;
  const int dflt = default_choice(cur_live);
  if (dflt < 0)
    return -1;
  int choice = dflt;

  if (G.abort_requested) {
    G.stats.aborted = true;
    G.stats.abort_reason = "abort requested by the harness";
    return -2;
  }
  // liveness budget
  const uint64_t idle = G.stats.points - G.last_progress;
  if (idle > G.sched.budget) {
    G.stats.aborted = true;
    G.stats.abort_reason = "no progress event for the whole step budget "
                           "(second half under the fair policy)";
    return -2;
  }
  if (G.stats.points > G.sched.total_cap) {
    G.stats.aborted = true;
    G.stats.inconclusive = true;
    G.stats.abort_reason = "total point cap reached while still progressing";
    return -2;
  }
  if (idle > G.sched.budget / 2) {
    // fair phase: uniform random among live fibers (fair with probability 1,
    // breaks lock-step symmetry)
    if (!G.stats.fair_phase) {
      G.stats.fair_phase = true;
    }
    choice = uniform_live(G.rng_fair);
  } else {
    switch (G.sched.policy) {
    case POL_REPLAY: {
      while (G.replay_pos < G.sched.switches.size() &&
             G.sched.switches[G.replay_pos].first < idx)
        ++G.replay_pos;
      if (G.replay_pos < G.sched.switches.size() &&
          G.sched.switches[G.replay_pos].first == idx) {
        int f = G.sched.switches[G.replay_pos].second;
        ++G.replay_pos;
        if (f >= 0 && f < G.team && !G.fibers[f].done)
          choice = f;
      }
      break;
    }
    case POL_UNIFORM:
      choice = uniform_live(G.rng_sched);
      break;
    case POL_BURST:
      if (!cur_live || G.rng_sched.chance(G.sched.burst_p))
        choice = uniform_live(G.rng_sched);
      else
        choice = G.cur;
      break;
    case POL_RELEASE: {
      const bool trigger = cur_live && G.fibers[G.cur].after_release;
      if (cur_live)
        G.fibers[G.cur].after_release = false;
      if (!cur_live || (trigger && G.rng_sched.chance(G.sched.burst_p)) ||
          G.rng_sched.chance(1. / 512.))
        choice = uniform_live(G.rng_sched);
      else
        choice = G.cur;
      break;
    }
    case POL_RR:
      if (cur_live && G.fibers[G.cur].consec < (uint64_t)G.sched.rr_q) {
        choice = G.cur;
      } else {
        for (int k = 1; k <= G.team; ++k) {
          int c = (G.cur + k) % G.team;
          if (!G.fibers[c].done) {
            choice = c;
            break;
          }
        }
      }
      break;
    case POL_PCT: {
      if (G.change_pos < G.change_points.size() &&
          G.stats.points >= G.change_points[G.change_pos]) {
        ++G.change_pos;
        if (cur_live)
          G.fibers[G.cur].priority = --G.low_priority;
      }
      if (cur_live) {
        Fiber &f = G.fibers[G.cur];
        if (f.idle_points > G.sched.demote_after ||
            f.fail_streak > G.sched.demote_after / 4 + 4) {
          f.priority = --G.low_priority;
          f.idle_points = 0;
          f.fail_streak = 0;
        }
      }
      long best = 0;
      int bi = -1;
      for (int k = 0; k < G.team; ++k)
        if (!G.fibers[k].done && (bi < 0 || G.fibers[k].priority > best)) {
          best = G.fibers[k].priority;
          bi = k;
        }
      choice = bi;
      break;
    }
    }
  }
  if (choice < 0)
    choice = dflt;
  if (choice != dflt)
    G.stats.executed.push_back(std::make_pair(idx, choice));
  return choice;
}

void do_abort_from_fiber() {
  // leave the region: back to the main context which longjmps to the guard
  G.aborting = true;
  const int from = G.cur;
#ifdef DETSIM_ASAN
  __sanitizer_start_switch_fiber(&G.fibers[from].fake_stack, G.main_bottom,
                                 G.main_size);
#endif
  swapcontext(&G.fibers[from].ctx, &G.main_ctx);
  abort(); // never resumed
}

void switch_fibers(int from, int to) {
  ++G.stats.switches;
  G.fibers[from].consec = 0;
  G.cur = to;
#ifdef DETSIM_ASAN
  __sanitizer_start_switch_fiber(&G.fibers[from].fake_stack,
                                 G.fibers[to].stack, STACK_SIZE);
#endif
  swapcontext(&G.fibers[from].ctx, &G.fibers[to].ctx);
#ifdef DETSIM_ASAN
  __sanitizer_finish_switch_fiber(G.fibers[from].fake_stack, nullptr, nullptr);
#endif
}

} // namespace

void fiber_exit_decision(int me) {
  fold_raw(0xE000 + (uint64_t)me);
  int next = decide(false);
  if (next == -2) {
    G.aborting = true;
    next = -1;
  }
  if (next < 0) {
#ifdef DETSIM_ASAN
    __sanitizer_start_switch_fiber(nullptr, G.main_bottom, G.main_size);
#endif
    setcontext(&G.main_ctx);
  }
  ++G.stats.switches;
  G.cur = next;
#ifdef DETSIM_ASAN
  __sanitizer_start_switch_fiber(nullptr, G.fibers[next].stack, STACK_SIZE);
#endif
  setcontext(&G.fibers[next].ctx);
}

namespace {

// a scheduling point of the current fiber
void point(const void *addr, int op) {
  ++G.seq;
  if (!G.region || G.team <= 1) {
    // One thread: nothing to schedule, but the budgets still apply - a run
    // that never ends (or that the harness wants to stop) is left through
    // the guard instead of waiting for the watchdog.
    if (G.active && G.have_guard) {
      ++G.stats.points;
      const uint64_t idle = G.stats.points - G.last_progress;
      const char *why = nullptr;
      if (G.abort_requested)
        why = "abort requested by the harness";
      else if (idle > G.sched.budget)
        why = "no progress event for the whole step budget (one thread)";
      else if (G.stats.points > G.sched.total_cap) {
        why = "total point cap reached while still progressing";
        G.stats.inconclusive = true;
      }
      if (why) {
        G.stats.aborted = true;
        G.stats.abort_reason = why;
        G.region = false;
        longjmp(G.guard, 1);
      }
    }
    return;
  }
  Fiber &f = G.fibers[G.cur];
  ++f.consec;
  ++f.idle_points;
  fold_raw(((uint64_t)G.cur << 8) | (uint64_t)(op & 0xff));
  int next = decide(true);
  if (next == -2)
    do_abort_from_fiber();
  if (next != G.cur)
    switch_fibers(G.cur, next);
}

void run_region(int n) {
  ++G.stats.regions;
  if ((uint64_t)n > G.stats.max_team)
    G.stats.max_team = (uint64_t)n;
  fold_raw(0xA000 + (uint64_t)n);
  if (n <= 1) {
    // no concurrency: run on the caller's stack
    G.region = true;
    G.team = 1;
    G.cur = 0;
    if (G.gomp_fn)
      G.gomp_fn(G.gomp_data);
    else
      G.region_fn(0);
    G.region = false;
    return;
  }
  if (n > 64)
    n = 64;
  G.team = n;
  G.fibers.assign((size_t)n, Fiber());
  G.pending.assign((size_t)n, Pending());
  for (int k = 0; k < n; ++k) {
    Fiber &f = G.fibers[k];
    f.stack = get_stack();
#ifndef DETSIM_ASAN
    if (G.stack_fill)
      memset(f.stack + STACK_SIZE - (1u << 20), G.stack_fill, 1u << 20);
#endif
    f.done = false;
    getcontext(&f.ctx);
    f.ctx.uc_stack.ss_sp = f.stack;
    f.ctx.uc_stack.ss_size = STACK_SIZE;
    f.ctx.uc_link = nullptr;
    makecontext(&f.ctx, (void (*)())fiber_main, 0);
#ifdef DETSIM_VALGRIND
    f.vg_id = VALGRIND_STACK_REGISTER(f.stack, f.stack + STACK_SIZE);
    // a pooled stack still holds the (defined) values of its previous user
    VALGRIND_MAKE_MEM_UNDEFINED(f.stack, STACK_SIZE);
#endif
  }
  // PCT setup for this region
  if (G.sched.policy == POL_PCT) {
    // random distinct priorities
    std::vector< long > pr((size_t)n);
    for (int k = 0; k < n; ++k)
      pr[k] = 1000 + k;
    for (int k = n - 1; k > 0; --k) {
      int j = (int)G.rng_sched.below((uint64_t)k + 1);
      std::swap(pr[k], pr[j]);
    }
    for (int k = 0; k < n; ++k)
      G.fibers[k].priority = pr[k];
    G.low_priority = 0;
    G.change_points.clear();
    for (int k = 0; k < G.sched.pct_d; ++k)
      G.change_points.push_back(G.stats.points + 1 +
                                G.rng_sched.below(G.sched.pct_horizon));
    std::sort(G.change_points.begin(), G.change_points.end());
    G.change_pos = 0;
  }
  G.region = true;
  G.cur = 0;
  G.last_progress = G.stats.points; // a new region is progress
  // region start = decision point (who runs first)
  int first = decide(false);
  if (first == -2) {
    G.aborting = true;
  } else {
    G.cur = first;
#ifdef DETSIM_ASAN
    G.main_known = false;
    __sanitizer_start_switch_fiber(&G.main_fake, G.fibers[first].stack,
                                   STACK_SIZE);
#endif
    swapcontext(&G.main_ctx, &G.fibers[first].ctx);
#ifdef DETSIM_ASAN
    __sanitizer_finish_switch_fiber(G.main_fake, nullptr, nullptr);
#endif
  }
  G.region = false;
  for (int k = 0; k < n; ++k) {
#ifdef DETSIM_VALGRIND
    VALGRIND_STACK_DEREGISTER(G.fibers[k].vg_id);
#endif
    G.stack_pool.push_back(G.fibers[k].stack);
  }
  G.team = 1;
  G.cur = 0;
  fold_raw(0xB000);
  if (G.aborting) {
    G.aborting = false;
    G.stats.aborted = true;
    if (G.have_guard)
      longjmp(G.guard, 1);
    fprintf(stderr, "detsim: budget exhausted outside a guarded run\n");
    _exit(4);
  }
}

} // namespace

// ------------------------------------------------------------- public API ---
void run_begin(const Sched &s, Listener *l) {
  G.active = true;
  G.sched = s;
  G.listener = l;
  G.rng_sched = Rng(mix64(s.seed, 0x5c4ed));
  G.rng_fair = Rng(mix64(s.seed, 0xfa1f));
  G.rng_tick = Rng(mix64(s.seed, 0x71c4));
  G.stats = RunStats();
  G.stats.hash = FNV_INIT;
  G.seq = 0;
  G.decisions = 0;
  G.replay_pos = 0;
  G.last_progress = 0;
  G.abort_requested = false;
  G.region = false;
  G.team = 1;
  G.cur = 0;
  G.holders.clear();
  G.aborting = false;
  G.ticks = 0;
  G.pending_serial = Pending();
}

RunStats run_end() {
  G.active = false;
  G.listener = nullptr;
  RunStats r;
  std::swap(r, G.stats);
  return r;
}

bool guarded(const std::function< void() > &body) {
  G.have_guard = true;
  bool ok = true;
  if (setjmp(G.guard) == 0) {
    body();
  } else {
    ok = false;
  }
  G.have_guard = false;
  return ok;
}

int current_fiber() { return G.region ? G.cur : 0; }
int team_size() { return G.region ? G.team : 1; }
bool in_region() { return G.region; }
uint64_t now_seq() { return G.seq; }
void fold(uint64_t x) { fold_raw(x); }
void fold_str(const char *s) {
  G.stats.hash = fnv1a_bytes(G.stats.hash, s, strlen(s));
}
void probe(const char *name, uint64_t n) { G.stats.probes[name] += n; }
void probe_reset(const char *name) { G.stats.probes[name] = 0; }
uint64_t probe_count(const char *name) {
  auto it = G.stats.probes.find(name);
  return it == G.stats.probes.end() ? 0 : it->second;
}
void mark_progress() {
  if (G.region && G.team > 1) {
    G.fibers[G.cur].idle_points = 0;
    G.fibers[G.cur].fail_streak = 0;
  }
}
void global_progress() { G.last_progress = G.stats.points; }
void request_abort() { G.abort_requested = true; }
void harness_yield(const void *addr) { point(addr, 0x7f); }
int last_unlock_holder() { return G.last_unlock_holder; }
int lock_holder(const void *addr) {
  auto it = G.holders.find(addr);
  return it == G.holders.end() ? -1 : it->second;
}
void set_atomic_level(bool on) { G.atomic_level = on; }
void note_lock(const void *addr, int what) {
  if (!G.active)
    return;
  const int me = G.region ? G.cur : 0;
  const bool multi = G.region && G.team > 1;
  if (what == 1) {
    G.holders[addr] = me;
    if (multi)
      G.fibers[G.cur].fail_streak = 0;
  } else if (what == 0) {
    {
      auto hit = G.holders.find(addr);
      G.last_unlock_holder = hit == G.holders.end() ? -1 : hit->second;
    }
    G.holders.erase(addr);
    if (multi)
      G.fibers[G.cur].after_release = true;
  } else if (multi) {
    ++G.fibers[G.cur].fail_streak;
  }
}
void set_default_threads(int n) { G.default_threads = n < 1 ? 1 : n; }
int default_threads() { return G.default_threads; }

void parallel(int n, const std::function< void(int) > &fn) {
  if (G.region) {
    fn(0);
    return;
  }
  G.gomp_fn = nullptr;
  G.region_fn = fn;
  run_region(n);
}

static void __attribute__((noinline)) scrub_stack(int byte, size_t n) {
  volatile char *p = (volatile char *)__builtin_alloca(n);
  for (size_t k = 0; k < n; ++k)
    p[k] = (char)byte;
}
void scrub_memory(int byte) {
#if defined(DETSIM_VALGRIND)
  // under memcheck the fill would turn uninitialised memory into defined
  // memory: leave it alone, memcheck tracks definedness itself
  if (RUNNING_ON_VALGRIND)
    return;
#endif
#if !defined(__SANITIZE_ADDRESS__)
  scrub_stack(byte, 3u << 20);
#endif
  mallopt(M_PERTURB, byte);
  G.stack_fill = byte;
}
long valgrind_errors() {
#if defined(DETSIM_VALGRIND)
  return (long)VALGRIND_COUNT_ERRORS;
#else
  return 0;
#endif
}
bool on_valgrind() {
#if defined(DETSIM_VALGRIND)
  return RUNNING_ON_VALGRIND != 0;
#else
  return false;
#endif
}

void clock_set(double t) { G.clock = t; }
void clock_advance(double dt) { G.clock += dt; }
double clock_now() { return G.clock; }
void clock_enable(bool on) { G.clock_on = on; }
bool clock_enabled() { return G.clock_on; }

} // namespace detsim

// ------------------------------------------------------------ hook entry ---
using namespace detsim;

extern "C" {

void cmi_verif_yield(const void *address, int operation) {
  if (!G.active)
    return;
  if (operation == CMI_VERIF_OP_PLAIN_READ && !G.sched.plain_points)
    return;
  point(address, operation);
}

void cmi_verif_result(const void *address, int operation, long result) {
  if (!G.active)
    return;
  Pending &p = (G.region && G.team > 1) ? G.pending[G.cur] : G.pending_serial;
  if (operation < 0) {
    p.addr = address;
    p.pre = result;
    return;
  }
  const long pre = p.pre;
  const int me = G.region ? G.cur : 0;
  if (G.atomic_level) {
    // tracking is done by the tsan shim at the level of single operations
  } else if (operation == CMI_VERIF_OP_LOCK) {
    const bool ok = (pre == 0 && result != 0);
    if (ok) {
      G.holders[address] = me;
      if (G.region && G.team > 1)
        G.fibers[G.cur].fail_streak = 0;
    } else if (G.region && G.team > 1) {
      ++G.fibers[G.cur].fail_streak;
    }
  } else if (operation == CMI_VERIF_OP_UNLOCK) {
    {
      auto hit = G.holders.find(address);
      G.last_unlock_holder = hit == G.holders.end() ? -1 : hit->second;
    }
    if (result == 0)
      G.holders.erase(address);
    if (G.region && G.team > 1)
      G.fibers[G.cur].after_release = true;
  }
  if (G.region && G.team > 1)
    fold_raw(((uint64_t)(pre & 0xffffff) << 24) ^ (uint64_t)(result & 0xffffff) ^
             ((uint64_t)operation << 56));
  if (G.listener)
    G.listener->on_atomic(address, operation, pre, result);
}

void cmi_verif_event(int kind, const void *a, const void *b, long x, long y) {
  if (!G.active)
    return;
  ++G.seq;
  if (kind == CMI_VERIF_EVENT_PROBE) {
    const char *name = (const char *)a;
    if (name[0] == 'm' && name[1] == 'a' && name[2] == 'x' && name[3] == ':') {
      // a "max:" probe keeps the largest value reported (x), not a count
      uint64_t &slot = G.stats.probes[name];
      if (x > 0 && (uint64_t)x > slot)
        slot = (uint64_t)x;
    } else {
      probe(name, 1);
    }
    return;
  }
  mark_progress();
  switch (kind) {
  case CMI_VERIF_EVENT_PACKET_LAUNCH:
  case CMI_VERIF_EVENT_PACKET_DONE:
  case CMI_VERIF_EVENT_PACKET_OUT:
  case CMI_VERIF_EVENT_PACKET_REEMIT:
  case CMI_VERIF_EVENT_ITERATION_BEGIN:
  case CMI_VERIF_EVENT_ITERATION_END:
  case CMI_VERIF_EVENT_HYDRO_STEP_BEGIN:
  case CMI_VERIF_EVENT_HYDRO_STEP_END:
  case CMI_VERIF_EVENT_HYDRO_TASK_END:
    global_progress();
    break;
  default:
    break;
  }
  if (G.listener)
    G.listener->on_event(kind, a, b, x, y);
  // A real thread can be preempted anywhere inside a task body, not only at
  // its atomic operations: the packet and task events are (optional)
  // scheduling points too, which puts preemptions between the plain memory
  // operations on buffers and cells that the locks are supposed to protect.
  if (G.sched.event_points && G.region && G.team > 1) {
    switch (kind) {
    case CMI_VERIF_EVENT_PACKET_LAUNCH:
    case CMI_VERIF_EVENT_PACKET_DONE:
    case CMI_VERIF_EVENT_PACKET_OUT:
    case CMI_VERIF_EVENT_PACKET_REEMIT:
    case CMI_VERIF_EVENT_TASK_BEGIN:
    case CMI_VERIF_EVENT_TASK_END:
    case CMI_VERIF_EVENT_HYDRO_TASK_BEGIN:
    case CMI_VERIF_EVENT_HYDRO_TASK_END:
      point(a, CMI_VERIF_OP_PLAIN_READ);
      break;
    default:
      break;
    }
  }
}

unsigned long cmi_verif_tick() {
  G.ticks += 100;
  if (G.active && G.sched.ticks_jitter > 0)
    G.ticks += G.rng_tick.below((uint64_t)G.sched.ticks_jitter);
  return G.ticks;
}

// ---- OpenMP surface (libgomp is NOT linked) ----
void GOMP_parallel(void (*fn)(void *), void *data, unsigned num_threads,
                   unsigned flags) {
  (void)flags;
  if (G.region) { // nested: serial, like libgomp's default
    fn(data);
    return;
  }
  int n = num_threads ? (int)num_threads : G.default_threads;
  G.gomp_fn = fn;
  G.gomp_data = data;
  run_region(n);
  G.gomp_fn = nullptr;
}

int omp_get_thread_num(void) { return G.region ? G.cur : 0; }
int omp_get_num_threads(void) { return G.region ? G.team : 1; }
int omp_get_max_threads(void) { return G.default_threads; }
void omp_set_num_threads(int n) { G.default_threads = n < 1 ? 1 : n; }
int omp_in_parallel(void) { return G.region && G.team > 1; }
int omp_get_num_procs(void) { return 16; }

// `omp single`: the first fiber to arrive executes the block
static unsigned long g_single_gen = 0, g_single_seen[64];
bool GOMP_single_start(void) {
  if (!G.region || G.team <= 1)
    return true;
  // every fiber calls this once per single construct; fiber 0's count is the
  // construct generation
  unsigned long gen = ++g_single_seen[G.cur];
  if (gen > g_single_gen) {
    g_single_gen = gen;
    return true;
  }
  return false;
}
void GOMP_barrier(void) {
  // only used by legacy code that is linked but never run in simulation:
  // a barrier between fibers = yield until all arrived
  static unsigned long arrived = 0, generation = 0;
  if (!G.region || G.team <= 1)
    return;
  unsigned long my = generation;
  if (++arrived == (unsigned long)G.team) {
    arrived = 0;
    ++generation;
    return;
  }
  while (generation == my)
    point(&generation, 0x7e);
}

// omp locks (legacy Lock.hpp / WorkDistributor): simple flags, yield to spin
typedef struct {
  int v;
} detsim_omp_lock;
void omp_init_lock(void *l) { ((detsim_omp_lock *)l)->v = 0; }
void omp_destroy_lock(void *l) { (void)l; }
void omp_set_lock(void *l) {
  detsim_omp_lock *k = (detsim_omp_lock *)l;
  point(l, 2);
  while (k->v)
    point(l, 2);
  k->v = 1;
}
void omp_unset_lock(void *l) {
  point(l, 3);
  ((detsim_omp_lock *)l)->v = 0;
}
int omp_test_lock(void *l) {
  detsim_omp_lock *k = (detsim_omp_lock *)l;
  point(l, 2);
  if (k->v)
    return 0;
  k->v = 1;
  return 1;
}
double omp_get_wtime(void) { return G.clock; }
}
