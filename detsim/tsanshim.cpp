// Own implementation of the ThreadSanitizer runtime interface. Objects
// compiled with -fsanitize=thread call these functions for every std::atomic
// operation; here each of them is a scheduling point of the simulator followed
// by the real operation. This gives interleavings *between the individual
// atomic operations inside* an AtomicValue member (which hook H1 alone treats
// as one step), with no change to /repo. Plain loads and stores are not
// scheduling points. This file must be compiled WITHOUT -fsanitize=thread.
#include "sim.hpp"

#include <cstddef>
#include <cstdint>

namespace {
inline void pt(const volatile void *a) {
  detsim::harness_yield((const void *)a);
}
inline int mo(int m) { return m; }
} // namespace

extern "C" {
void __tsan_init() {}
void __tsan_func_entry(void *) {}
void __tsan_func_exit() {}
void __tsan_read1(void *) {}
void __tsan_read2(void *) {}
void __tsan_read4(void *) {}
void __tsan_read8(void *) {}
void __tsan_read16(void *) {}
void __tsan_write1(void *) {}
void __tsan_write2(void *) {}
void __tsan_write4(void *) {}
void __tsan_write8(void *) {}
void __tsan_write16(void *) {}
void __tsan_unaligned_read2(void *) {}
void __tsan_unaligned_read4(void *) {}
void __tsan_unaligned_read8(void *) {}
void __tsan_unaligned_write2(void *) {}
void __tsan_unaligned_write4(void *) {}
void __tsan_unaligned_write8(void *) {}
void __tsan_read_range(void *, long) {}
void __tsan_write_range(void *, long) {}
void __tsan_vptr_update(void **, void *) {}
void __tsan_vptr_read(void **) {}
void __tsan_atomic_thread_fence(int) {}
void __tsan_atomic_signal_fence(int) {}

#define DETSIM_ATOMIC(T, N)                                                    \
  T __tsan_atomic##N##_load(const volatile T *a, int m) {                      \
    (void)mo(m);                                                               \
    pt(a);                                                                     \
    return __atomic_load_n(a, __ATOMIC_SEQ_CST);                               \
  }                                                                            \
  void __tsan_atomic##N##_store(volatile T *a, T v, int m) {                   \
    (void)mo(m);                                                               \
    pt(a);                                                                     \
    __atomic_store_n(a, v, __ATOMIC_SEQ_CST);                                  \
  }                                                                            \
  T __tsan_atomic##N##_exchange(volatile T *a, T v, int m) {                   \
    (void)mo(m);                                                               \
    pt(a);                                                                     \
    return __atomic_exchange_n(a, v, __ATOMIC_SEQ_CST);                        \
  }                                                                            \
  T __tsan_atomic##N##_fetch_add(volatile T *a, T v, int m) {                  \
    (void)mo(m);                                                               \
    pt(a);                                                                     \
    return __atomic_fetch_add(a, v, __ATOMIC_SEQ_CST);                         \
  }                                                                            \
  T __tsan_atomic##N##_fetch_sub(volatile T *a, T v, int m) {                  \
    (void)mo(m);                                                               \
    pt(a);                                                                     \
    return __atomic_fetch_sub(a, v, __ATOMIC_SEQ_CST);                         \
  }                                                                            \
  T __tsan_atomic##N##_fetch_and(volatile T *a, T v, int m) {                  \
    (void)mo(m);                                                               \
    pt(a);                                                                     \
    return __atomic_fetch_and(a, v, __ATOMIC_SEQ_CST);                         \
  }                                                                            \
  T __tsan_atomic##N##_fetch_or(volatile T *a, T v, int m) {                   \
    (void)mo(m);                                                               \
    pt(a);                                                                     \
    return __atomic_fetch_or(a, v, __ATOMIC_SEQ_CST);                          \
  }                                                                            \
  T __tsan_atomic##N##_fetch_xor(volatile T *a, T v, int m) {                  \
    (void)mo(m);                                                               \
    pt(a);                                                                     \
    return __atomic_fetch_xor(a, v, __ATOMIC_SEQ_CST);                         \
  }                                                                            \
  T __tsan_atomic##N##_fetch_nand(volatile T *a, T v, int m) {                 \
    (void)mo(m);                                                               \
    pt(a);                                                                     \
    return __atomic_fetch_nand(a, v, __ATOMIC_SEQ_CST);                        \
  }                                                                            \
  int __tsan_atomic##N##_compare_exchange_strong(volatile T *a, T *c, T v,     \
                                                 int m, int fm) {              \
    (void)mo(m);                                                               \
    (void)fm;                                                                  \
    pt(a);                                                                     \
    return __atomic_compare_exchange_n(a, c, v, false, __ATOMIC_SEQ_CST,       \
                                       __ATOMIC_SEQ_CST);                      \
  }                                                                            \
  int __tsan_atomic##N##_compare_exchange_weak(volatile T *a, T *c, T v,       \
                                               int m, int fm) {                \
    (void)mo(m);                                                               \
    (void)fm;                                                                  \
    pt(a);                                                                     \
    return __atomic_compare_exchange_n(a, c, v, false, __ATOMIC_SEQ_CST,       \
                                       __ATOMIC_SEQ_CST);                      \
  }                                                                            \
  T __tsan_atomic##N##_compare_exchange_val(volatile T *a, T c, T v, int m,    \
                                            int fm) {                          \
    (void)mo(m);                                                               \
    (void)fm;                                                                  \
    pt(a);                                                                     \
    __atomic_compare_exchange_n(a, &c, v, false, __ATOMIC_SEQ_CST,             \
                                __ATOMIC_SEQ_CST);                             \
    return c;                                                                  \
  }

// 8-bit atomics are the lock flags (AtomicValue< bool >): track the holder
// exactly, from the individual operations
#define DETSIM_ATOMIC8_SKIP
uint8_t __tsan_atomic8_load(const volatile uint8_t *a, int m) {
  (void)m;
  pt(a);
  return __atomic_load_n(a, __ATOMIC_SEQ_CST);
}
void __tsan_atomic8_store(volatile uint8_t *a, uint8_t v, int m) {
  (void)m;
  pt(a);
  __atomic_store_n(a, v, __ATOMIC_SEQ_CST);
  detsim::note_lock((const void *)a, v ? 1 : 0);
}
uint8_t __tsan_atomic8_exchange(volatile uint8_t *a, uint8_t v, int m) {
  (void)m;
  pt(a);
  uint8_t old = __atomic_exchange_n(a, v, __ATOMIC_SEQ_CST);
  if (v && !old)
    detsim::note_lock((const void *)a, 1);
  else if (v && old)
    detsim::note_lock((const void *)a, -1);
  else if (!v)
    detsim::note_lock((const void *)a, 0);
  return old;
}
uint8_t __tsan_atomic8_fetch_add(volatile uint8_t *a, uint8_t v, int m) {
  (void)m;
  pt(a);
  return __atomic_fetch_add(a, v, __ATOMIC_SEQ_CST);
}
uint8_t __tsan_atomic8_fetch_sub(volatile uint8_t *a, uint8_t v, int m) {
  (void)m;
  pt(a);
  return __atomic_fetch_sub(a, v, __ATOMIC_SEQ_CST);
}
uint8_t __tsan_atomic8_fetch_and(volatile uint8_t *a, uint8_t v, int m) {
  (void)m;
  pt(a);
  return __atomic_fetch_and(a, v, __ATOMIC_SEQ_CST);
}
uint8_t __tsan_atomic8_fetch_or(volatile uint8_t *a, uint8_t v, int m) {
  (void)m;
  pt(a);
  return __atomic_fetch_or(a, v, __ATOMIC_SEQ_CST);
}
uint8_t __tsan_atomic8_fetch_xor(volatile uint8_t *a, uint8_t v, int m) {
  (void)m;
  pt(a);
  return __atomic_fetch_xor(a, v, __ATOMIC_SEQ_CST);
}
int __tsan_atomic8_compare_exchange_strong(volatile uint8_t *a, uint8_t *c,
                                           uint8_t v, int m, int fm) {
  (void)m;
  (void)fm;
  pt(a);
  const uint8_t expected = *c;
  int ok = __atomic_compare_exchange_n(a, c, v, false, __ATOMIC_SEQ_CST,
                                       __ATOMIC_SEQ_CST);
  if (ok && !expected && v)
    detsim::note_lock((const void *)a, 1);
  else if (ok && expected && !v)
    detsim::note_lock((const void *)a, 0);
  else if (!ok && v)
    detsim::note_lock((const void *)a, -1);
  return ok;
}
int __tsan_atomic8_compare_exchange_weak(volatile uint8_t *a, uint8_t *c,
                                         uint8_t v, int m, int fm) {
  return __tsan_atomic8_compare_exchange_strong(a, c, v, m, fm);
}
DETSIM_ATOMIC(uint16_t, 16)
DETSIM_ATOMIC(uint32_t, 32)
DETSIM_ATOMIC(uint64_t, 64)
}
