#include "driver.hpp"

#include <algorithm>
#include <cerrno>
#include <climits>
#include <csignal>
#include <cstdio>
#include <cstdlib>
#include <cstring>
#include <ctime>
#include <fcntl.h>
#include <map>
#include <poll.h>
#include <set>
#include <sys/stat.h>
#include <sys/time.h>
#include <sys/syscall.h>
#include <sys/wait.h>
#include <unistd.h>
#include <unordered_set>

#if defined(__SANITIZE_ADDRESS__)
// sanitizer reports are classified by exit code 77 (see classify_death)
extern "C" __attribute__((used)) const char *__asan_default_options() {
  return "exitcode=77:detect_leaks=0:abort_on_error=0:allocator_may_return_"
         "null=1:detect_stack_use_after_return=0";
}
extern "C" __attribute__((used)) const char *__ubsan_default_options() {
  return "halt_on_error=1:exitcode=77:print_stacktrace=0";
}
#endif

namespace detsim {

double wall_now() {
  struct timespec ts;
  syscall(SYS_clock_gettime, CLOCK_MONOTONIC, &ts);
  return (double)ts.tv_sec + 1e-9 * (double)ts.tv_nsec;
}

static std::string g_scratch;
static std::string verif_root() {
  const char *r = getenv("VERIF_ROOT");
  return r ? r : "/verif";
}

static void rm_rf(const std::string &path) {
  if (path.size() < 8)
    return; // safety
  std::string cmd = "rm -rf '" + path + "'";
  if (system(cmd.c_str())) {
  }
}

std::string scratch_dir() {
  if (g_scratch.empty()) {
    const char *t = getenv("TMPDIR");
    std::string base = t ? t : "/tmp";
    char buf[256];
    snprintf(buf, sizeof buf, "%s/cmi-verif-%07d", base.c_str(), (int)getpid());
    mkdir(buf, 0700);
    g_scratch = buf;
  }
  return g_scratch;
}

// --------------------------------------------------------------- memcheck ---
// Errors memcheck reported in this process since the mark; the first report
// of the log (error kind and innermost frames) goes into the message.
static long g_vg_mark = 0;
static long g_vg_log_offset = 0;
static std::string vg_log_path() {
  char buf[128];
  snprintf(buf, sizeof buf, "/tmp/cmi-verif-vg.%d.log", (int)getpid());
  return buf;
}
void valgrind_mark() {
  g_vg_mark = valgrind_errors();
  struct stat st;
  g_vg_log_offset = stat(vg_log_path().c_str(), &st) == 0 ? (long)st.st_size : 0;
}
long valgrind_report(std::string &text) {
  const long n = valgrind_errors() - g_vg_mark;
  if (n <= 0)
    return 0;
  FILE *f = fopen(vg_log_path().c_str(), "r");
  text.clear();
  if (f) {
    fseek(f, g_vg_log_offset, SEEK_SET);
    char line[512];
    int kept = 0;
    while (kept < 5 && fgets(line, sizeof line, f)) {
      // "==pid== text": drop the prefix and addresses
      char *p = strstr(line, "== ");
      std::string t = p ? p + 3 : line;
      while (!t.empty() && (t.back() == '\n' || t.back() == ' '))
        t.pop_back();
      if (t.empty()) {
        if (kept > 0)
          break;
        continue;
      }
      size_t a = t.find("0x");
      if (a != std::string::npos) {
        size_t e = t.find(':', a);
        if (e != std::string::npos)
          t.erase(a, e - a + 2);
      }
      text += (kept ? " | " : "") + t;
      ++kept;
    }
    fclose(f);
  }
  if (text.empty())
    text = "(no text in the memcheck log)";
  return n;
}

// ---------------------------------------------------------------- watchdog ---
// SIGALRM every 5 s: if the simulator's event sequence number has not moved
// for WD_STALL seconds (a serial loop without scheduling points, or a blocked
// process) or the run exceeds the engine's hard limit, die by SIGALRM; the
// parent classifies that as class "hang".
static volatile uint64_t g_wd_last_seq = 0;
static volatile int g_wd_stalled = 0, g_wd_total = 0, g_wd_limit = 0;
static const int WD_TICK = 5, WD_STALL = 30;
// The watchdog counts CPU time of the process (ITIMER_PROF), not wall-clock
// time: on a machine that is busy with other jobs a worker gets little CPU,
// and a wall-clock limit would turn that into "hang" verdicts that do not
// reproduce. A generous wall-clock alarm stays as a fallback for a process
// that blocks without using CPU. Under memcheck everything is ~50x slower.
static int g_wd_scale = 1;
static void wd_handler(int sig) {
  if (sig == SIGALRM) { // wall-clock fallback
    signal(SIGALRM, SIG_DFL);
    raise(SIGALRM);
    return;
  }
  const uint64_t seq = now_seq();
  g_wd_total += WD_TICK;
  if (seq == g_wd_last_seq)
    g_wd_stalled += WD_TICK;
  else
    g_wd_stalled = 0;
  g_wd_last_seq = seq;
  if (g_wd_stalled >= WD_STALL * g_wd_scale ||
      g_wd_total >= g_wd_limit * g_wd_scale) {
    struct itimerval off;
    memset(&off, 0, sizeof off);
    setitimer(ITIMER_PROF, &off, nullptr);
    signal(SIGALRM, SIG_DFL);
    raise(SIGALRM);
    return;
  }
}
static void wd_start(int limit_seconds) {
  g_wd_last_seq = now_seq();
  g_wd_stalled = 0;
  g_wd_total = 0;
  g_wd_limit = limit_seconds;
  g_wd_scale = on_valgrind() ? 20 : 1;
  signal(SIGPROF, wd_handler);
  signal(SIGALRM, wd_handler);
  struct itimerval it;
  it.it_interval.tv_sec = WD_TICK;
  it.it_interval.tv_usec = 0;
  it.it_value = it.it_interval;
  setitimer(ITIMER_PROF, &it, nullptr);
  alarm((unsigned)(limit_seconds * g_wd_scale * 8));
}
static void wd_stop() {
  struct itimerval off;
  memset(&off, 0, sizeof off);
  setitimer(ITIMER_PROF, &off, nullptr);
  alarm(0);
  signal(SIGALRM, SIG_DFL);
}

// -------------------------------------------------------- outcome (de)ser ---
static Json outcome_to_json(const Outcome &o, bool with_exec) {
  Json j = Json::object();
  j["vclass"] = o.vclass;
  j["message"] = o.message;
  j["hash"] = Json(std::to_string(o.hash));
  j["nontrivial"] = o.nontrivial;
  j["stats"] = o.stats.type == Json::OBJ ? o.stats : Json::object();
  j["signature"] = o.signature.type == Json::OBJ ? o.signature : Json::object();
  Json n = Json::array();
  for (auto &s : o.notes)
    n.push(s);
  j["notes"] = n;
  if (with_exec) {
    Json a = Json::array();
    for (auto &p : o.executed) {
      a.push((long long)p.first);
      a.push(p.second);
    }
    j["executed"] = a;
  }
  return j;
}

static Outcome outcome_from_json(const Json &j) {
  Outcome o;
  o.vclass = j.at("vclass").as_string();
  o.message = j.at("message").as_string();
  o.hash = j.at("hash").as_u64();
  o.nontrivial = j.at("nontrivial").as_bool();
  o.stats = j.at("stats");
  o.signature = j.at("signature");
  for (auto &e : j.at("notes").a)
    o.notes.push_back(e.as_string());
  const Json &a = j.at("executed");
  for (size_t k = 0; k + 1 < a.a.size(); k += 2)
    o.executed.push_back(
        std::make_pair((uint64_t)a.a[k].as_int(), (int)a.a[k + 1].as_int()));
  return o;
}

static std::string tail_of_file(const std::string &path, size_t maxbytes) {
  FILE *f = fopen(path.c_str(), "r");
  if (!f)
    return "";
  fseek(f, 0, SEEK_END);
  long sz = ftell(f);
  long start = sz > (long)maxbytes ? sz - (long)maxbytes : 0;
  fseek(f, start, SEEK_SET);
  std::string s((size_t)(sz - start), '\0');
  size_t n = fread(&s[0], 1, s.size(), f);
  s.resize(n);
  fclose(f);
  return s;
}

// classify a dead child from its stderr
static void classify_death(int status, const std::string &errtext,
                           std::string &vclass, std::string &message) {
  char buf[128];
  if (WIFSIGNALED(status)) {
    int sig = WTERMSIG(status);
    if (sig == SIGALRM) {
      vclass = "hang";
      message = "watchdog: run did not finish (serial loop without "
                "scheduling points or blocked)";
    } else if (sig == SIGABRT) {
      vclass = "abort";
      message = "process aborted";
    } else {
      vclass = "crash";
      snprintf(buf, sizeof buf, "killed by signal %d", sig);
      message = buf;
    }
  } else {
    int code = WEXITSTATUS(status);
    if (code == 77) {
      vclass = "sanitizer";
      message = "sanitizer report";
    } else {
      vclass = "crash";
      snprintf(buf, sizeof buf, "unexpected exit status %d", code);
      message = buf;
    }
  }
  // first informative line of stderr (deterministic parts only)
  size_t p = errtext.find("ERROR: AddressSanitizer:");
  if (p == std::string::npos)
    p = errtext.find("runtime error:");
  if (p == std::string::npos)
    p = errtext.find("Error:");
  if (p != std::string::npos) {
    size_t e = errtext.find('\n', p);
    std::string line = errtext.substr(p, e == std::string::npos ? 200 : e - p);
    // error text of cmac_error is on the following line(s)
    if (line.find("Error:") == 0 && e != std::string::npos) {
      size_t e2 = errtext.find('\n', e + 1);
      // include the location line before "Error:"
      size_t b = errtext.rfind('\n', p);
      line = errtext.substr(b == std::string::npos ? 0 : b + 1,
                            (e2 == std::string::npos ? errtext.size() : e2) -
                                (b == std::string::npos ? 0 : b + 1));
    }
    // strip addresses
    std::string clean;
    for (size_t k = 0; k < line.size(); ++k) {
      if (line[k] == '0' && k + 1 < line.size() && line[k + 1] == 'x') {
        clean += "0x..";
        k += 2;
        while (k < line.size() && isxdigit((unsigned char)line[k]))
          ++k;
        --k;
      } else if (line[k] == '\n') {
        clean += ' ';
      } else
        clean += line[k];
    }
    while (clean.find("  ") != std::string::npos)
      clean.replace(clean.find("  "), 2, " ");
    message += ": " + clean.substr(0, 300);
  }
}

// run one case in a forked child
static Outcome run_in_child(Engine &engine, const Json &cse, int timeout) {
  int fd[2];
  if (pipe(fd)) {
    perror("pipe");
    exit(2);
  }
  char errpath[256];
  snprintf(errpath, sizeof errpath, "%s/build/logs", verif_root().c_str());
  mkdir(errpath, 0755);
  snprintf(errpath, sizeof errpath, "%s/build/logs/%s.child.%d.err",
           verif_root().c_str(), engine.property().c_str(), (int)getpid());
  fflush(stdout);
  fflush(stderr);
  pid_t pid = fork();
  if (pid == 0) {
    close(fd[0]);
    int efd = open(errpath, O_WRONLY | O_CREAT | O_TRUNC, 0644);
    if (efd >= 0) {
      dup2(efd, 2);
      close(efd);
    }
    int nfd = open("/dev/null", O_WRONLY);
    if (nfd >= 0) {
      dup2(nfd, 1);
      close(nfd);
    }
    g_scratch.clear();
    engine.setup();
    wd_start(timeout);
    if (getenv("VERIF_SELFTEST_HANG")) {
      // self-test of the watchdog: a loop without scheduling points
      volatile unsigned long spin = 0;
      for (;;)
        ++spin;
    }
    Outcome o = engine.execute(cse);
    wd_stop();
    std::string s = outcome_to_json(o, true).dump();
    size_t off = 0;
    while (off < s.size()) {
      ssize_t w = write(fd[1], s.data() + off, s.size() - off);
      if (w <= 0)
        break;
      off += (size_t)w;
    }
    close(fd[1]);
    if (!g_scratch.empty())
      rm_rf(g_scratch);
    _exit(0);
  }
  close(fd[1]);
  std::string data;
  char buf[65536];
  for (;;) {
    ssize_t r = read(fd[0], buf, sizeof buf);
    if (r < 0 && errno == EINTR)
      continue;
    if (r <= 0)
      break;
    data.append(buf, (size_t)r);
  }
  close(fd[0]);
  int status = 0;
  waitpid(pid, &status, 0);
  // scratch of a dead child
  {
    const char *t = getenv("TMPDIR");
    std::string base = t ? t : "/tmp";
    char sb[256];
    snprintf(sb, sizeof sb, "%s/cmi-verif-%07d", base.c_str(), (int)pid);
    rm_rf(sb);
  }
  Outcome o;
  if (WIFEXITED(status) && WEXITSTATUS(status) == 0 && !data.empty()) {
    try {
      o = outcome_from_json(Json::parse(data));
    } catch (...) {
      o.vclass = "crash";
      o.message = "unparsable child output";
    }
  } else {
    classify_death(status, tail_of_file(errpath, 20000), o.vclass, o.message);
  }
  unlink(errpath);
  return o;
}

// --------------------------------------------------------------- workers ---
struct Worker {
  pid_t pid = -1;
  int fd = -1;
  std::string buf;
  long started = -1;   // index announced with S, not yet answered
  uint64_t next = 0;   // next index for a restart
  bool finished = false;
  std::string errpath;
};

struct Violation {
  uint64_t index;
  std::string vclass, message;
  Json signature;
  uint64_t hash;
};

struct Batch {
  uint64_t seed;
  std::string tier;
  uint64_t runs;
  double deadline;
  std::vector< Json > directed;
};

static Json make_case(Engine &engine, const Batch &b, uint64_t index) {
  if (index < b.directed.size())
    return b.directed[index];
  return engine.generate(mix64(b.seed, index), b.tier, index);
}

static void worker_loop(Engine &engine, const Batch &b, int w, int W,
                        uint64_t first, int outfd) {
  engine.setup();
  FILE *out = fdopen(outfd, "w");
  for (uint64_t i = first; i < b.runs; i += (uint64_t)W) {
    if (wall_now() > b.deadline)
      break;
    Json cse = make_case(engine, b, i);
    fprintf(out, "S %llu\n", (unsigned long long)i);
    fflush(out);
    wd_start(engine.watchdog_seconds());
    Outcome o = engine.execute(cse);
    wd_stop();
    fprintf(out, "R %llu %s\n", (unsigned long long)i,
            outcome_to_json(o, false).dump().c_str());
    fflush(out);
    if (!o.vclass.empty() || o.restart_worker) {
      // process state may be inconsistent after a violation: restart
      fprintf(out, "X %llu\n", (unsigned long long)i);
      fflush(out);
      if (!g_scratch.empty())
        rm_rf(g_scratch);
      _exit(0);
    }
  }
  fprintf(out, "D\n");
  fflush(out);
  if (!g_scratch.empty())
    rm_rf(g_scratch);
  _exit(0);
  (void)w;
}

static void spawn(Engine &engine, const Batch &b, Worker &wk, int w, int W,
                  uint64_t first) {
  int fd[2];
  if (pipe(fd)) {
    perror("pipe");
    exit(2);
  }
  fflush(stdout);
  fflush(stderr);
  pid_t pid = fork();
  if (pid == 0) {
    close(fd[0]);
    int efd = open(wk.errpath.c_str(), O_WRONLY | O_CREAT | O_TRUNC, 0644);
    if (efd >= 0) {
      dup2(efd, 2);
      close(efd);
    }
    int nfd = open("/dev/null", O_WRONLY);
    if (nfd >= 0) {
      dup2(nfd, 1);
      close(nfd);
    }
    g_scratch.clear();
    worker_loop(engine, b, w, W, first, fd[1]);
    _exit(0);
  }
  close(fd[1]);
  wk.pid = pid;
  wk.fd = fd[0];
  wk.buf.clear();
  wk.started = -1;
  wk.finished = false;
}

// ------------------------------------------------------- known findings ---
struct Known {
  std::string id, vclass, what;
  Json match;
};

static std::vector< Known > load_known(const std::string &property) {
  std::vector< Known > v;
  std::string path = verif_root() + "/known_findings.json";
  Json j;
  try {
    j = Json::parse_file(path);
  } catch (...) {
    return v;
  }
  for (auto &e : j.at("findings").a) {
    if (e.at("property").as_string() != property)
      continue;
    Known k;
    k.id = e.at("id").as_string();
    k.vclass = e.at("class").as_string();
    k.what = e.at("what").as_string();
    k.match = e.at("match");
    v.push_back(k);
  }
  return v;
}

static const Known *match_known(const std::vector< Known > &known,
                                const std::string &vclass,
                                const Json &signature,
                                const std::string &message = "") {
  for (auto &k : known) {
    if (k.vclass != vclass)
      continue;
    bool ok = true;
    for (auto &kv : k.match.o) {
      if (kv.first == "message_contains") {
        // call-site match (sanitizer reports, cmac_error messages)
        if (message.find(kv.second.as_string()) == std::string::npos)
          ok = false;
        if (!ok)
          break;
        continue;
      }
      if (!signature.has(kv.first) ||
          signature.at(kv.first).dump() != kv.second.dump()) {
        ok = false;
        break;
      }
    }
    if (ok)
      return &k;
  }
  return nullptr;
}

// memory corruption shows up as abort, signal or sanitizer report depending on
// what the stray access hits: one family for the determinism gate
static std::string family(const std::string &vclass) {
  if (vclass == "abort" || vclass == "crash" || vclass == "sanitizer")
    return "crash-family";
  return vclass;
}

// ------------------------------------------------------------ minimising ---
static bool same_violation(const Outcome &o, const std::string &vclass,
                           const std::vector< Known > &known,
                           bool was_known) {
  if (family(o.vclass) != family(vclass))
    return false;
  bool k = match_known(known, o.vclass, o.signature, o.message) != nullptr;
  return k == was_known;
}

static Json minimise(Engine &engine, Json cse, const std::string &vclass,
                     const std::vector< Known > &known, bool was_known,
                     double time_limit, int timeout, uint64_t &attempts,
                     Outcome &last) {
  const double t_end = wall_now() + time_limit;
  bool progress = true;
  while (progress && wall_now() < t_end) {
    progress = false;
    std::vector< Json > cands = engine.shrink(cse);
    for (auto &c : cands) {
      if (wall_now() > t_end)
        break;
      ++attempts;
      Outcome o = run_in_child(engine, c, timeout);
      if (same_violation(o, vclass, known, was_known)) {
        cse = c;
        last = o;
        progress = true;
        break;
      }
    }
  }
  // freeze the schedule into an explicit decision list and minimise it
  const std::string sk = engine.sched_key();
  if (!sk.empty() && cse.has(sk) && vclass != "crash" && vclass != "abort" &&
      vclass != "sanitizer" && vclass != "hang" &&
      vclass != "nontermination") {
    Outcome o = run_in_child(engine, cse, timeout);
    ++attempts;
    if (same_violation(o, vclass, known, was_known) &&
        o.executed.size() < 20000) {
      Sched s = Sched::from_json(cse.at(sk));
      Sched r = s;
      r.policy = POL_REPLAY;
      r.switches = o.executed;
      Json frozen = cse;
      frozen[sk] = r.to_json();
      Outcome of = run_in_child(engine, frozen, timeout);
      ++attempts;
      if (same_violation(of, vclass, known, was_known)) {
        cse = frozen;
        last = of;
        // ddmin over the switch list
        std::vector< std::pair< uint64_t, int > > sw = r.switches;
        size_t chunk = sw.size() / 2;
        while (chunk >= 1 && wall_now() < t_end && !sw.empty()) {
          bool removed = false;
          for (size_t start = 0; start < sw.size() && wall_now() < t_end;) {
            std::vector< std::pair< uint64_t, int > > cand;
            for (size_t k = 0; k < sw.size(); ++k)
              if (k < start || k >= start + chunk)
                cand.push_back(sw[k]);
            Sched rc = r;
            rc.switches = cand;
            Json cj = cse;
            cj[sk] = rc.to_json();
            ++attempts;
            Outcome oc = run_in_child(engine, cj, timeout);
            if (same_violation(oc, vclass, known, was_known)) {
              sw = cand;
              cse = cj;
              last = oc;
              removed = true;
            } else {
              start += chunk;
            }
          }
          if (!removed || chunk == 1) {
            if (chunk == 1)
              break;
          }
          chunk /= 2;
        }
      }
    }
  }
  return cse;
}

// ------------------------------------------------------------------ main ---
static int do_replay(Engine &engine, const std::string &path) {
  Json j;
  try {
    j = Json::parse_file(path);
  } catch (std::exception &e) {
    fprintf(stderr, "cannot read replay file: %s\n", e.what());
    return 2;
  }
  engine.setup();
  // run through a child so that crashes are classified the same way
  Outcome o = run_in_child(engine, j.at("case"), engine.watchdog_seconds());
  printf("replay: class=%s hash=%llu message=%s\n",
         o.vclass.empty() ? "none" : o.vclass.c_str(),
         (unsigned long long)o.hash, o.message.c_str());
  const std::string want = j.at("vclass").as_string();
  const uint64_t want_hash = j.at("hash").as_u64();
  if (o.vclass.empty()) {
    printf("replay: no violation (expected %s)\n", want.c_str());
    return 0;
  }
  if (family(o.vclass) == family(want) &&
      (o.hash == want_hash || family(want) == "crash-family" ||
       engine.hash_free_class(want))) {
    printf("replay: REPRODUCED exactly\n");
  } else {
    printf("replay: violation differs from recorded one (class %s hash %llu)\n",
           want.c_str(), (unsigned long long)want_hash);
  }
  std::vector< Known > known = load_known(engine.property());
  const Known *k = match_known(known, o.vclass, o.signature, o.message);
  if (k) {
    printf("KNOWN-FINDING: property=%s %s\n", engine.property().c_str(),
           k->what.c_str());
    return 0;
  }
  printf("VIOLATION property=%s replay=%s\n", engine.property().c_str(),
         path.c_str());
  return 1;
}

int check_main(int argc, char **argv, Engine &engine) {
  // glibc's thread cache hands freed chunks back without applying M_PERTURB,
  // so a field that a restart constructor forgets to set silently inherits
  // the value of the previous object of the same size. Switch the cache off
  // (tunables are read at process start, hence the re-exec) so that the
  // hostile fill of scrub_memory() reaches every allocation.
  // VERIF_MODE=valgrind: the whole check (workers, re-run children, replay
  // processes) runs under memcheck; the engine asks memcheck after every run
  // whether it reported anything (valgrind_report)
  if (getenv("VERIF_MODE") && std::string(getenv("VERIF_MODE")) == "valgrind" &&
      !on_valgrind() && !getenv("VERIF_VALGRIND_STARTED")) {
    setenv("VERIF_VALGRIND_STARTED", "1", 1);
    setenv("VERIF_NO_REEXEC", "1", 1);
    std::vector< char * > args;
    static char a0[] = "valgrind", a1[] = "-q", a2[] = "--trace-children=yes",
                a3[] = "--leak-check=no", a4[] = "--error-exitcode=0",
                a5[] = "--log-file=/tmp/cmi-verif-vg.%p.log",
                a6[] = "--num-callers=6", a7[] = "--max-stackframe=8388608",
                a8[] = "--child-silent-after-fork=no";
    char exe[PATH_MAX];
    ssize_t el = readlink("/proc/self/exe", exe, sizeof exe - 1);
    exe[el > 0 ? el : 0] = 0;
    args = {a0, a1, a2, a3, a4, a5, a6, a7, a8, exe};
    for (int k = 1; k < argc; ++k)
      args.push_back(argv[k]);
    args.push_back(nullptr);
    execvp("valgrind", args.data());
    fprintf(stderr, "cannot start valgrind\n");
    return 2;
  }
  if (!getenv("GLIBC_TUNABLES") && !getenv("VERIF_NO_REEXEC")) {
    setenv("GLIBC_TUNABLES", "glibc.malloc.tcache_count=0", 1);
    setenv("VERIF_NO_REEXEC", "1", 1);
    execv("/proc/self/exe", argv);
  }
  setvbuf(stdout, nullptr, _IOLBF, 0);
  std::string mode = argc > 1 ? argv[1] : "quick";
  if (mode == "--replay") {
    if (argc < 3) {
      fprintf(stderr, "usage: --replay <file>\n");
      return 2;
    }
    const int rc = do_replay(engine, argv[2]);
    if (!g_scratch.empty()) {
      if (chdir("/")) {
      }
      rm_rf(g_scratch);
    }
    return rc;
  }
  if (mode == "--case") { // run one case file in-process, print the outcome
    Json c = Json::parse_file(argv[2]);
    engine.setup();
    Outcome o = engine.execute(c.has("case") ? c.at("case") : c);
    printf("%s\n", outcome_to_json(o, false).dump(1).c_str());
    return o.vclass.empty() ? 0 : 1;
  }
  if (mode == "--gen") { // print the generated case with the given index
    uint64_t sd = 20260927ull;
    if (const char *e = getenv("VERIF_SEED"))
      sd = strtoull(e, nullptr, 0);
    const uint64_t idx = strtoull(argv[2], nullptr, 0);
    std::string tr = argc > 3 ? argv[3] : "quick";
    std::vector< Json > dir = engine.directed(tr);
    Json c = idx < dir.size() ? dir[idx]
                              : engine.generate(mix64(sd, idx), tr, idx);
    printf("%s\n", c.dump(1).c_str());
    return 0;
  }
  const char *tenv = getenv("VERIF_TIER");
  std::string tier = (mode == "quick" || mode == "thorough")
                         ? mode
                         : (tenv ? tenv : "quick");
  if (tier != "quick" && tier != "thorough")
    tier = "quick";
  uint64_t seed = 20260927ull;
  if (const char *s = getenv("VERIF_SEED"))
    seed = strtoull(s, nullptr, 0);
  const std::string prop = engine.property();
  const double t0 = wall_now();

  Batch b;
  b.seed = seed;
  b.tier = tier;
  double seconds = 60;
  engine.budget(tier, b.runs, seconds);
  if (const char *s = getenv("VERIF_RUNS"))
    b.runs = strtoull(s, nullptr, 0);
  if (const char *s = getenv("VERIF_SECONDS"))
    seconds = atof(s);
  b.deadline = t0 + seconds;
  b.directed = engine.directed(tier);
  int W = engine.workers();
  if (const char *s = getenv("VERIF_WORKERS"))
    W = atoi(s);
  if (W < 1)
    W = 1;
  if ((uint64_t)W > b.runs)
    W = (int)b.runs;

  printf("check %s tier=%s seed=%llu runs<=%llu seconds<=%.0f workers=%d\n",
         prop.c_str(), tier.c_str(), (unsigned long long)seed,
         (unsigned long long)b.runs, seconds, W);

  std::string logdir = verif_root() + "/build";
  mkdir(logdir.c_str(), 0755);
  logdir += "/logs";
  mkdir(logdir.c_str(), 0755);

  std::vector< Worker > workers((size_t)W);
  for (int w = 0; w < W; ++w) {
    char p[256];
    snprintf(p, sizeof p, "%s/%s.w%d.err", logdir.c_str(), prop.c_str(), w);
    workers[w].errpath = p;
    spawn(engine, b, workers[w], w, W, (uint64_t)w);
  }

  // determinism proof (tools/determinism.sh): per-run event-log hashes
  FILE *hashlog = nullptr;
  if (const char *hl = getenv("VERIF_HASHLOG"))
    hashlog = fopen(hl, "w");
  uint64_t evaluations = 0;
  std::unordered_set< uint64_t > hashes, nontrivial_hashes;
  std::map< std::string, long long > stats_sum;
  std::map< std::string, long long > stats_max;
  std::map< std::string, uint64_t > note_counts;
  std::vector< Violation > violations;
  uint64_t max_index_done = 0;
  long long stragglers = 0;

  auto handle_line = [&](Worker &wk, int w, const std::string &line) {
    if (line.empty())
      return;
    if (line[0] == 'S') {
      wk.started = atol(line.c_str() + 2);
    } else if (line[0] == 'R') {
      char *endp = nullptr;
      uint64_t idx = strtoull(line.c_str() + 2, &endp, 10);
      Outcome o;
      try {
        o = outcome_from_json(Json::parse(std::string(endp)));
      } catch (...) {
        o.vclass = "crash";
        o.message = "unparsable worker line";
      }
      wk.started = -1;
      wk.next = idx + (uint64_t)W;
      ++evaluations;
      if (idx > max_index_done)
        max_index_done = idx;
      hashes.insert(o.hash);
      if (hashlog)
        fprintf(hashlog, "%llu %llu %s\n", (unsigned long long)idx,
                (unsigned long long)o.hash,
                o.vclass.empty() ? "-" : o.vclass.c_str());
      if (o.nontrivial)
        nontrivial_hashes.insert(o.hash);
      for (auto &kv : o.stats.o) {
        long long v = kv.second.as_int();
        if (kv.first.compare(0, 4, "max_") == 0) {
          if (v > stats_max[kv.first])
            stats_max[kv.first] = v;
        } else
          stats_sum[kv.first] += v;
      }
      for (auto &n : o.notes)
        ++note_counts[n];
      if (!o.vclass.empty()) {
        Violation v;
        v.index = idx;
        v.vclass = o.vclass;
        v.message = o.message;
        v.signature = o.signature;
        v.hash = o.hash;
        violations.push_back(v);
      }
    } else if (line[0] == 'D') {
      wk.finished = true;
    } else if (line[0] == 'X') {
      // worker exits deliberately after a violation; restart it
      wk.finished = false;
      wk.started = -2;
    }
    (void)w;
  };

  int alive = W;
  while (alive > 0) {
    std::vector< struct pollfd > pfds;
    std::vector< int > idxs;
    for (int w = 0; w < W; ++w)
      if (workers[w].fd >= 0) {
        struct pollfd p;
        p.fd = workers[w].fd;
        p.events = POLLIN;
        p.revents = 0;
        pfds.push_back(p);
        idxs.push_back(w);
      }
    if (pfds.empty())
      break;
    int pr = poll(pfds.data(), (nfds_t)pfds.size(), 1000);
    if (pr < 0 && errno != EINTR)
      break;
    if (wall_now() > b.deadline + 45.) {
      // stragglers (runs that are cut short only by their watchdog): the
      // batch is over, they are not counted
      for (int w = 0; w < W; ++w)
        if (workers[w].fd >= 0) {
          kill(workers[w].pid, SIGKILL);
          int st = 0;
          waitpid(workers[w].pid, &st, 0);
          close(workers[w].fd);
          workers[w].fd = -1;
          const char *t = getenv("TMPDIR");
          std::string base = t ? t : "/tmp";
          char sb[256];
          snprintf(sb, sizeof sb, "%s/cmi-verif-%07d", base.c_str(),
                   (int)workers[w].pid);
          rm_rf(sb);
          ++stragglers;
        }
      break;
    }
    for (size_t k = 0; k < pfds.size(); ++k) {
      if (!(pfds[k].revents & (POLLIN | POLLHUP | POLLERR)))
        continue;
      int w = idxs[k];
      Worker &wk = workers[w];
      char buf[65536];
      ssize_t r = read(wk.fd, buf, sizeof buf);
      if (r > 0) {
        wk.buf.append(buf, (size_t)r);
        size_t pos;
        while ((pos = wk.buf.find('\n')) != std::string::npos) {
          std::string line = wk.buf.substr(0, pos);
          wk.buf.erase(0, pos + 1);
          handle_line(wk, w, line);
        }
        continue;
      }
      if (r < 0 && (errno == EINTR || errno == EAGAIN))
        continue;
      // EOF: worker ended
      close(wk.fd);
      wk.fd = -1;
      int status = 0;
      waitpid(wk.pid, &status, 0);
      {
        const char *t = getenv("TMPDIR");
        std::string base = t ? t : "/tmp";
        char sb[256];
        snprintf(sb, sizeof sb, "%s/cmi-verif-%07d", base.c_str(), (int)wk.pid);
        rm_rf(sb);
      }
      if (wk.finished) {
        --alive;
        continue;
      }
      if (wk.started >= 0) {
        // died inside run wk.started
        Violation v;
        v.index = (uint64_t)wk.started;
        classify_death(status, tail_of_file(wk.errpath, 20000), v.vclass,
                       v.message);
        v.hash = 0;
        violations.push_back(v);
        ++evaluations;
        wk.next = (uint64_t)wk.started + (uint64_t)W;
      }
      // restart (after crash or deliberate exit) if work is left
      if (wk.next < b.runs && wall_now() < b.deadline) {
        spawn(engine, b, wk, w, W, wk.next);
      } else {
        --alive;
      }
    }
  }
  if (hashlog)
    fclose(hashlog);
  const double t_batch = wall_now() - t0;

  // ---------------------------------------------------------- violations ---
  std::vector< Known > known = load_known(prop);
  std::sort(violations.begin(), violations.end(),
            [](const Violation &a, const Violation &b) {
              return a.index < b.index;
            });
  std::map< std::string, Violation > groups; // signature -> first violation
  std::map< std::string, uint64_t > group_counts;
  // further members of a group (used for classes that are nondeterministic by
  // nature, where one particular run need not show the difference again)
  std::map< std::string, std::vector< Violation > > group_more;
  for (auto &v : violations) {
    // message digits are folded so that one defect = one group
    std::string key = v.vclass + "|" + v.signature.dump();
    if (v.vclass == "sanitizer" || v.vclass == "memcheck") {
      // different reports are different defects (one of them may be a
      // listed finding): group by the report text with the numbers folded
      std::string t;
      for (char ch : v.message.substr(0, 160))
        t += (ch >= '0' && ch <= '9') ? '#' : ch;
      key += "|" + t;
    }
    ++group_counts[key];
    if (!groups.count(key))
      groups[key] = v;
    else if (group_more[key].size() < 7)
      group_more[key].push_back(v);
  }
  int exit_code = 0;
  bool nondeterministic = false;
  long long watchdog_not_reproduced = 0;
  Json vlist = Json::array();
  Json klist = Json::array();
  std::set< std::string > known_printed;
  uint64_t unlisted = 0;
  const int timeout = engine.watchdog_seconds();
  const double min_time = tier == "quick" ? 30. : 300.;
  int processed = 0;
  for (auto &g : groups)
    printf("candidate: class=%s runs=%llu first_index=%llu: %s\n",
           g.second.vclass.c_str(), (unsigned long long)group_counts[g.first],
           (unsigned long long)g.second.index, g.second.message.c_str());
  // order: logic violations first (cheap to re-run), crashes, then the
  // classes that cost a time-out per execution
  std::vector< std::pair< int, std::string > > order;
  for (auto &g : groups) {
    const std::string &cl = g.second.vclass;
    int rank = 0;
    if (family(cl) == "crash-family")
      rank = 1;
    if (cl == "nontermination")
      rank = 2;
    if (cl == "hang")
      rank = 3;
    order.push_back(std::make_pair(rank, g.first));
  }
  std::sort(order.begin(), order.end());
  const int max_processed = tier == "quick" ? 1 : 4;
  const double t_violations_end =
      wall_now() + (tier == "quick" ? 240. : 1200.);
  for (auto &og : order) {
    auto git = groups.find(og.second);
    auto &g = *git;
    Violation v = g.second;
    if (exit_code == 1 &&
        (processed >= max_processed || wall_now() > t_violations_end)) {
      printf("further candidate (not re-run): class=%s runs=%llu "
             "first_index=%llu: %s\n",
             v.vclass.c_str(), (unsigned long long)group_counts[g.first],
             (unsigned long long)v.index, v.message.c_str());
      ++unlisted;
      continue;
    }
    Json cse = make_case(engine, b, v.index);
    // gate 1: two fresh executions must agree with the batch run
    Outcome o1 = run_in_child(engine, cse, timeout);
    Outcome o2 = run_in_child(engine, cse, timeout);
    bool det = (family(o1.vclass) == family(v.vclass) &&
                family(o2.vclass) == family(v.vclass) &&
                (engine.hash_free_class(v.vclass) ||
                 (o1.hash == o2.hash &&
                  (v.hash == 0 || o1.hash == v.hash ||
                   family(v.vclass) == "crash-family"))));
    if (!det && engine.hash_free_class(v.vclass)) {
      // a system under test that is nondeterministic need not show the
      // difference in every pair of executions: try the other members of
      // the group until one reproduces as a class in two fresh re-runs
      for (auto &alt : group_more[g.first]) {
        Json c2 = make_case(engine, b, alt.index);
        Outcome a1 = run_in_child(engine, c2, timeout);
        Outcome a2 = run_in_child(engine, c2, timeout);
        if (family(a1.vclass) == family(v.vclass) &&
            family(a2.vclass) == family(v.vclass)) {
          v = alt;
          cse = c2;
          o1 = a1;
          o2 = a2;
          det = true;
          break;
        }
      }
    }
    if (!det && v.vclass == "hang" && o1.vclass.empty() && o2.vclass.empty() &&
        o1.hash == o2.hash) {
      // The watchdog verdict depends on real (CPU) time, the only thing in
      // a run that the simulator does not control: a run that was killed by
      // it once and completes twice, identically, in fresh processes was
      // slow, not stuck. Counted, not a verdict.
      printf("note: run %llu was stopped by the watchdog in the batch but "
             "completed in two fresh re-runs (slow machine); not a verdict\n",
             (unsigned long long)v.index);
      ++watchdog_not_reproduced;
      continue;
    }
    if (!det) {
      printf("NONDETERMINISM property=%s index=%llu batch=(%s,%llu) "
             "rerun1=(%s,%llu) rerun2=(%s,%llu)\n",
             prop.c_str(), (unsigned long long)v.index, v.vclass.c_str(),
             (unsigned long long)v.hash, o1.vclass.c_str(),
             (unsigned long long)o1.hash, o2.vclass.c_str(),
             (unsigned long long)o2.hash);
      printf("  message: %s\n", v.message.c_str());
      nondeterministic = true;
      continue;
    }
    const Known *k = match_known(known, o1.vclass, o1.signature, o1.message);
    if (k) {
      if (!known_printed.count(k->id)) {
        printf("KNOWN-FINDING: property=%s %s (seen %llu times, e.g. run "
               "index %llu: %s)\n",
               prop.c_str(), k->what.c_str(),
               (unsigned long long)group_counts[g.first],
               (unsigned long long)v.index, v.message.c_str());
        known_printed.insert(k->id);
        Json e = Json::object();
        e["id"] = k->id;
        e["count"] = (long long)group_counts[g.first];
        e["example_index"] = (long long)v.index;
        e["message"] = v.message;
        klist.push(e);
      }
      continue;
    }
    ++unlisted;
    ++processed;
    uint64_t attempts = 0;
    Outcome last = o1;
    Json minimal = minimise(engine, cse, v.vclass, known, false, min_time,
                            timeout, attempts, last);
    std::string rdir = verif_root() + "/replays";
    mkdir(verif_root().c_str(), 0755);
    mkdir(rdir.c_str(), 0755);
    char rp[512];
    const char *partname = getenv("VERIF_EVIDENCE_PART");
    if (partname && *partname)
      snprintf(rp, sizeof rp, "%s/%s-%s-%llu-%llu.json", rdir.c_str(),
               prop.c_str(), partname, (unsigned long long)seed,
               (unsigned long long)v.index);
    else
      snprintf(rp, sizeof rp, "%s/%s-%llu-%llu.json", rdir.c_str(),
               prop.c_str(), (unsigned long long)seed,
               (unsigned long long)v.index);
    Json rf = Json::object();
    rf["property"] = prop;
    rf["engine_part"] = std::string(partname ? partname : "");
    rf["vclass"] = last.vclass;
    rf["message"] = last.message;
    rf["hash"] = Json(std::to_string(last.hash));
    rf["seed"] = Json(std::to_string(seed));
    rf["index"] = (long long)v.index;
    rf["tier"] = tier;
    rf["case"] = minimal;
    rf["original_case"] = cse;
    rf["original_message"] = v.message;
    rf["minimisation_attempts"] = (long long)attempts;
    rf.write_file(rp);
    // gate 2: fresh-process replay of the written file
    std::string cmd = std::string("/proc/self/exe");
    char exe[PATH_MAX];
    ssize_t el = readlink("/proc/self/exe", exe, sizeof exe - 1);
    exe[el > 0 ? el : 0] = 0;
    cmd = std::string("'") + exe + "' --replay '" + rp + "' > '" + rp +
          ".out' 2>&1";
    int rc = system(cmd.c_str());
    std::string rout = tail_of_file(std::string(rp) + ".out", 4000);
    unlink((std::string(rp) + ".out").c_str());
    bool reproduced = WIFEXITED(rc) && WEXITSTATUS(rc) == 1 &&
                      rout.find("REPRODUCED exactly") != std::string::npos;
    if (!reproduced) {
      printf("NONDETERMINISM property=%s replay file %s did not reproduce in "
             "a fresh process:\n%s\n",
             prop.c_str(), rp, rout.c_str());
      nondeterministic = true;
      continue;
    }
    printf("violation: class=%s runs=%llu first_index=%llu\n  %s\n  minimised "
           "(%llu attempts): %s\n",
           v.vclass.c_str(), (unsigned long long)group_counts[g.first],
           (unsigned long long)v.index, v.message.c_str(),
           (unsigned long long)attempts, last.message.c_str());
    printf("VIOLATION property=%s replay=%s\n", prop.c_str(), rp);
    exit_code = 1;
    Json e = Json::object();
    e["class"] = v.vclass;
    e["message"] = last.message;
    e["replay"] = std::string(rp);
    e["count"] = (long long)group_counts[g.first];
    vlist.push(e);
  }

  // a confirmed violation wins; unconfirmed ones alone mean the machinery (or
  // memory corruption in the code under test) is not reproducible: exit 2
  if (exit_code == 0 && nondeterministic)
    exit_code = 2;

  // ------------------------------------------------------------ evidence ---
  const double wall = wall_now() - t0;
  Json ev = Json::object();
  ev["property_id"] = prop;
  ev["tier"] = tier;
  ev["seed"] = (long long)seed;
  ev["level"] = engine.level();
  Json cov = Json::object();
  Json assumptions = Json::array();
  engine.describe(cov, assumptions);
  cov["evaluations"] = (long long)evaluations;
  cov["distinct_nontrivial"] = (long long)nontrivial_hashes.size();
  cov["distinct_event_log_hashes"] = (long long)hashes.size();
  cov["runs_per_hour"] =
      (long long)(t_batch > 0 ? (double)evaluations * 3600. / t_batch : 0);
  cov["batch_wall_s"] = t_batch;
  cov["workers"] = W;
  cov["straggler_runs_killed_after_deadline"] = stragglers;
  cov["watchdog_kills_not_reproduced"] = watchdog_not_reproduced;
  Json st = Json::object();
  for (auto &kv : stats_sum)
    st[kv.first] = kv.second;
  for (auto &kv : stats_max)
    st[kv.first] = kv.second;
  cov["totals"] = st;
  Json nt = Json::object();
  for (auto &kv : note_counts)
    nt[kv.first] = (long long)kv.second;
  cov["notes"] = nt;
  Json samples = Json::array();
  for (uint64_t i = 0; i < 3 && i < b.runs; ++i) {
    uint64_t idx = b.directed.size() + i;
    if (idx >= b.runs)
      idx = i;
    Json s = Json::object();
    s["index"] = (long long)idx;
    s["case"] = make_case(engine, b, idx);
    samples.push(s);
  }
  cov["samples"] = samples;
  cov["violation_details"] = vlist;
  cov["known_findings_seen"] = klist;
  ev["coverage"] = cov;
  ev["assumptions"] = assumptions;
  ev["wall_s"] = wall;
  ev["violations"] = (long long)unlisted;
  std::string edir = verif_root() + "/evidence";
  mkdir(edir.c_str(), 0755);
  // a property decided by several engines: each writes a part file, the
  // check script merges them (tools/merge_evidence.py)
  const char *part = getenv("VERIF_EVIDENCE_PART");
  if (part && *part)
    ev.write_file(edir + "/" + prop + ".part." + part + ".json");
  else
    ev.write_file(edir + "/" + prop + ".json");

  printf("check %s: %llu runs in %.1f s (%.0f runs/h), %zu distinct event "
         "logs (%zu non-trivial), violations=%llu known=%zu exit=%d\n",
         prop.c_str(), (unsigned long long)evaluations, t_batch,
         t_batch > 0 ? (double)evaluations * 3600. / t_batch : 0.,
         hashes.size(), nontrivial_hashes.size(),
         (unsigned long long)unlisted, known_printed.size(), exit_code);
  if (evaluations == 0 && exit_code == 0) {
    printf("no run completed\n");
    exit_code = 2;
  }
  if (!g_scratch.empty()) {
    // the parent's own scratch directory (an engine's setup() may create one)
    if (chdir("/")) {
    }
    rm_rf(g_scratch);
  }
  return exit_code;
}

} // namespace detsim
