#!/usr/bin/env python3
"""Merge evidence part files evidence/<id>.part.*.json into evidence/<id>.json.
usage: merge_evidence.py <property id> <exit codes...>"""
import glob
import json
import os
import sys

root = os.path.dirname(os.path.dirname(os.path.abspath(__file__)))
pid = sys.argv[1]
parts = sorted(glob.glob(os.path.join(root, "evidence", pid + ".part.*.json")))
if not parts:
    sys.exit(0)
docs = [json.load(open(p)) for p in parts]
out = dict(docs[0])
cov = dict(docs[0]["coverage"])
cov["parts"] = {}
cov["evaluations"] = 0
cov["distinct_nontrivial"] = 0
cov["samples"] = []
rules = []
totals = {}
assumptions = []
violations = 0
wall = 0.0
for p, d in zip(parts, docs):
    name = os.path.basename(p).split(".part.")[1][:-5]
    c = d["coverage"]
    cov["parts"][name] = {k: c.get(k) for k in (
        "evaluations", "distinct_nontrivial", "distinct_event_log_hashes", "runs_per_hour",
        "batch_wall_s", "totals", "notes", "components", "fault_kinds", "violation_details",
        "known_findings_seen", "straggler_runs_killed_after_deadline")}
    cov["evaluations"] += c.get("evaluations", 0)
    cov["distinct_nontrivial"] += c.get("distinct_nontrivial", 0)
    cov["samples"] += [dict(s, part=name) for s in c.get("samples", [])][:2]
    rules.append("[%s] %s" % (name, c.get("rule", "")))
    for a in d.get("assumptions", []):
        if a not in assumptions:
            assumptions.append(a)
    violations += d.get("violations", 0)
    wall += d.get("wall_s", 0.0)
cov["rule"] = " || ".join(rules)
for k in ("totals", "notes", "components", "fault_kinds", "distinct_event_log_hashes",
          "runs_per_hour", "batch_wall_s", "violation_details", "known_findings_seen"):
    cov.pop(k, None)
out["coverage"] = cov
out["assumptions"] = assumptions
out["violations"] = violations
out["wall_s"] = wall
json.dump(out, open(os.path.join(root, "evidence", pid + ".json"), "w"), indent=1)
for p in parts:
    os.remove(p)
