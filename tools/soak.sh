#!/bin/bash
# Multi-seed soak: looks for rare alarms on the unchanged tree.
# usage: tools/soak.sh <seconds per run> <seeds...>; uses the binaries of /verif/build
root=${VERIF_SOAK_ROOT:-$PWD}
secs=$1; shift
for s in "$@"; do
  for spec in C03:small/bin/eion C10:small/bin/erhd C04:small/bin/erhd C01:small/bin/eion C07:small/bin/erhd C09:small/bin/erhd C13:small/bin/eion; do
    IFS=: read -r p bin <<<"$spec"
    out=$(VERIF_ROOT=$root VERIF_SEED=$s VERIF_PROPERTY=$p VERIF_SECONDS=$secs VERIF_RUNS=100000000 VERIF_EVIDENCE_PART=soak /verif/build/$bin quick 2>&1)
    echo "seed $s $p: $(echo "$out" | grep "^check $p:" | tail -1)"
    echo "$out" | grep -E "^candidate|VIOLATION|NONDET" | cut -c1-400
  done
done
