#!/bin/bash
# Multi-seed soak: looks for rare alarms on the unchanged tree.
# usage: tools/soak.sh <seconds per run> <seeds...>
# Takes a private copy of the engine binaries of /verif/build first, so that
# later rebuilds do not swap binaries under a running soak.
root=${VERIF_SOAK_ROOT:-$PWD}
secs=$1; shift
bins=$root/soakbin
rm -rf "$bins"; mkdir -p "$bins"
for v in small asan tshim plain vg; do mkdir -p "$bins/$v"; cp -a /verif/build/$v/bin "$bins/$v/bin"; done
for s in "$@"; do
  for spec in C03:small/bin/eion: C10:small/bin/erhd: C04:small/bin/erhd: C01:small/bin/eion: C01:small/bin/erhd: \
              C07:small/bin/erhd: C09:small/bin/erhd: C13:small/bin/eion: C13:plain/bin/erng: C08:tshim/bin/econt: \
              C19:plain/bin/etl: C14:small/bin/erhd: C14:plain/bin/efs: C12:asan/bin/eion: C12:asan/bin/erhd: C12:small/bin/eion:perturb C12:vg/bin/eion:valgrind C12:vg/bin/erhd:valgrind; do
    IFS=: read -r p bin vmode <<<"$spec"
    out=$(VERIF_ROOT=$root VERIF_SEED=$s VERIF_PROPERTY=$p VERIF_MODE=$vmode VERIF_SECONDS=$secs VERIF_RUNS=100000000 VERIF_EVIDENCE_PART=soak "$bins/$bin" quick 2>&1)
    echo "seed $s $p $bin $vmode: $(echo "$out" | grep "^check $p:" | tail -1)"
    echo "$out" | grep -E "^candidate|VIOLATION|NONDET|^KNOWN" | cut -c1-400
  done
done
