#!/bin/bash
# usage: run_mutants.sh <property> <variant/bin/engine> <seconds> <mutant dirs...>; summary on stdout
prop=$1; bin=$2; secs=$3; shift 3
for d in "$@"; do
  m=$(basename "$d")
  out=$(VERIF_PROPERTY=$prop VERIF_SECONDS=$secs /verif/tools/try_patch.sh "$d/patch.diff" "$bin" x quick 2>&1)
  rc=$(echo "$out" | grep -o "^exit=[0-9]*" | tail -1)
  nviol=$(echo "$out" | grep -c "^VIOLATION")
  first=$(echo "$out" | grep "^candidate" | head -3 | cut -c1-220 | tr '\n' '|')
  echo "$m $prop $rc violations=$nviol :: $first"
done
