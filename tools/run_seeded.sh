#!/bin/bash
# Re-run the check of its property against every independently written change
# under seeded/ (each in a scratch worktree of /repo's HEAD; nothing in /repo
# is touched). usage: tools/run_seeded.sh [seconds per change, default 40] [directory name pattern, default *]
cd "$(dirname "$(readlink -f "$0")")/.." || exit 2
secs=${1:-40}
pat=${2:-*}
for d in seeded/$pat/; do
  name=$(basename "$d")
  prop=${name%%-*}
  case "$prop" in
    C08) bin=tshim/bin/econt;;
    C19) bin=plain/bin/etl;;
    C14) bin=plain/bin/efs;;
    C01|C03) bin=small/bin/eion; grep -q "^+++ b/src/TaskBasedRadiationHydrodynamicsSimulation.cpp" "$d/patch.diff" && bin=small/bin/erhd;;
    C13) bin=small/bin/eion; grep -q "^+++ b/src/RandomGenerator.hpp" "$d/patch.diff" && bin=plain/bin/erng;;
    C12) bin=asan/bin/eion; grep -qE "Hydro|Alvelius|LiveOutput|SurfaceDensity|RadiationHydro|PhotonSourceDistribution" "$d/patch.diff" && bin=asan/bin/erhd;;
    *) bin=small/bin/erhd;;
  esac
  patch="$d/patch.diff"; [ -f "$d/patch-rebased.diff" ] && patch="$d/patch-rebased.diff"
  if ! git -C /repo apply --check "$PWD/$patch" 2>/dev/null; then
    echo "$name $prop: patch no longer applies to /repo HEAD (the code it changes was modified since)"
    continue
  fi
  out=$(VERIF_PROPERTY=$prop VERIF_SECONDS=$secs tools/try_patch.sh "$patch" $bin x quick 2>&1)
  rc=$(echo "$out" | grep -o "^exit=[0-9]*" | tail -1)
  classes=$(echo "$out" | grep "^candidate" | sed 's/candidate: class=\([a-z-]*\) runs=\([0-9]*\).*/\1:\2/' | tr '\n' ' ')
  echo "$name $prop $bin $rc :: $classes"
done
