#!/bin/bash
# Determinism proof: for every engine, the same VERIF_SEED values are executed
# with 1, 4 and 16 worker processes (different order, different process
# history) and twice with 16; the per-run event-log hashes must be identical.
# usage: tools/determinism.sh [runs per engine, default 512]
cd "$(dirname "$(readlink -f "$0")")/.." || exit 2
N=${1:-512}
out=build/determinism; mkdir -p $out
fail=0
run() { # property binary mode tag workers seed
  VERIF_PROPERTY=$1 VERIF_MODE=$3 VERIF_RUNS=$N VERIF_SECONDS=600 VERIF_WORKERS=$5 VERIF_SEED=$6 \
  VERIF_EVIDENCE_PART=determinism VERIF_HASHLOG=$out/$1.$4.w$5.s$6.log "$2" quick >/dev/null 2>&1
  sort -n $out/$1.$4.w$5.s$6.log -o $out/$1.$4.w$5.s$6.log
}
for spec in C08:build/tshim/bin/econt: C01:build/small/bin/eion: C03:build/small/bin/eion: \
            C07:build/small/bin/erhd: C10:build/small/bin/erhd: C09:build/small/bin/erhd: C14:build/small/bin/erhd: \
            C13:build/small/bin/eion: C13:build/plain/bin/erng: C12:build/small/bin/eion:perturb \
            C19:build/plain/bin/etl: C14:build/plain/bin/efs:; do
  IFS=: read -r prop bin mode <<<"$spec"
  tag=$(basename $bin)
  [ "$tag" = efs ] && n_save=$N && N=$((N<64?N:64))
  for seed in 1 2; do
    run $prop $bin "$mode" $tag 16 $seed; cp $out/$prop.$tag.w16.s$seed.log $out/$prop.$tag.w16b.s$seed.log
    run $prop $bin "$mode" $tag 16 $seed
    run $prop $bin "$mode" $tag 4 $seed
    run $prop $bin "$mode" $tag 1 $seed
    for other in w16b w4 w1; do
      [ $other = w16b ] && f=$out/$prop.$tag.w16b.s$seed.log || f=$out/$prop.$tag.$other.s$seed.log
      if ! cmp -s $out/$prop.$tag.w16.s$seed.log $f; then
        echo "NONDETERMINISTIC: $prop $tag seed $seed: 16 workers vs $other"; diff $out/$prop.$tag.w16.s$seed.log $f | head -5; fail=1
      fi
    done
    echo "$prop $tag seed $seed: $(wc -l < $out/$prop.$tag.w16.s$seed.log) runs, hashes identical across 16/16/4/1 workers: $([ $fail = 0 ] && echo yes || echo NO)"
  done
  [ "$tag" = efs ] && N=$n_save
done
rm -f evidence/*.part.determinism.json
exit $fail
