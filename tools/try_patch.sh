#!/bin/bash
# Run a check against a scratch worktree of /repo with a patch applied.
# usage: tools/try_patch.sh <patch.diff> <engine-binary-relative e.g. tiny/bin/econt> <make target> [tier] [extra env...]
# Nothing in /repo or /verif/build is touched; the scratch tree is removed.
set -u
PATCH=$(readlink -f "$1"); BIN=$2; TARGET=$3; TIER=${4:-quick}
NAME=$(basename "$(dirname "$PATCH")")-$$
S=${TMPDIR:-/tmp}/mut-$NAME
rm -rf "$S"; mkdir -p "$S"
git -C /repo worktree add -q --detach "$S/repo" HEAD || exit 3
trap 'git -C /repo worktree remove --force "$S/repo" 2>/dev/null; rm -rf "$S"' EXIT
if ! git -C "$S/repo" apply "$PATCH"; then echo "PATCH DOES NOT APPLY"; exit 3; fi
# reuse objects of the main build where possible: copy the build dir (hard links)
mkdir -p "$S/build"
VARIANT=${BIN%%/*}
VB=${VB:-/verif/build}
if [ -d $VB/gen ]; then cp -a $VB/gen "$S/build/gen"; fi
if [ -d "$VB/$VARIANT" ]; then cp -a "$VB/$VARIANT" "$S/build/$VARIANT"; fi
# dependency files mention /repo/src: rewrite them to the scratch tree
find "$S/build" -name '*.d' -exec sed -i -e "s|/repo/src/|$S/repo/src/|g" -e "s|$VB/|$S/build/|g" {} + 2>/dev/null
# make decides by mtime: touched files in the scratch tree are newer
( cd "$S/repo" && git diff --name-only | xargs -r touch )
make -s -C /verif REPO="$S/repo" B="$S/build" -j16 "$S/build/$BIN" >"$S/make.log" 2>&1 || { tail -30 "$S/make.log"; echo "BUILD FAILED"; exit 3; }
mkdir -p "$S/vr"
[ -f /verif/known_findings.json ] && cp /verif/known_findings.json "$S/vr/"
VERIF_ROOT="$S/vr" "$S/build/$BIN" "$TIER"
rc=$?
echo "exit=$rc"
exit $rc
