#!/usr/bin/env python3
"""Generate the configuration headers the CMake build would generate, for the
verification harness build: same templates from /repo/src, but HAVE_MPI off
(single-process engine) and data tables under /verif/build/data.

usage: gen_config.py <repo> <outdir> <datadir>
"""
import os
import re
import shutil
import subprocess
import sys
import tarfile

repo, out, data = sys.argv[1:4]
os.makedirs(out, exist_ok=True)
os.makedirs(data, exist_ok=True)


def write_if_changed(path, text):
    if os.path.exists(path) and open(path).read() == text:
        return
    with open(path, "w") as f:
        f.write(text)


# --- data tables -----------------------------------------------------------
for name in ["verner_A.dat", "verner_B.dat", "verner_C.dat",
             "verner_rec_data.txt", "He2q.dat"]:
    src = os.path.join(repo, "data", name)
    dst = os.path.join(data, name)
    if os.path.exists(src) and (not os.path.exists(dst) or
                                os.path.getmtime(src) > os.path.getmtime(dst)):
        shutil.copy(src, dst)
for tgz, sub in [("fg_uvb_dec11.tar.gz", ""), ("DeRijckeCooling.tar.gz", ""),
                 ("wmbasic.tar.gz", ""), ("PopStar.tar.gz", ""),
                 ("pegase3_chab.tar.gz", "Pegase3")]:
    src = os.path.join(repo, "data", tgz)
    if not os.path.exists(src) or os.path.getsize(src) == 0:
        continue
    stamp = os.path.join(data, "." + tgz + ".stamp")
    if os.path.exists(stamp) and os.path.getmtime(stamp) >= os.path.getmtime(src):
        continue
    target = os.path.join(data, sub)
    os.makedirs(target, exist_ok=True)
    try:
        with tarfile.open(src) as t:
            t.extractall(target)
        open(stamp, "w").write("ok\n")
    except Exception as e:  # emptied archives in this sandbox
        sys.stderr.write("gen_config: skipping %s (%s)\n" % (tgz, e))
ck = os.path.join(repo, "data", "CastelliKurucz.hdf5")
if os.path.exists(ck) and os.path.getsize(ck) > 0:
    shutil.copy(ck, os.path.join(data, "CastelliKurucz.hdf5"))

values = {
    "VERNERCROSSSECTIONSDATALOCATION_A": data + "/verner_A.dat",
    "VERNERCROSSSECTIONSDATALOCATION_B": data + "/verner_B.dat",
    "VERNERCROSSSECTIONSDATALOCATION_C": data + "/verner_C.dat",
    "VERNERRECOMBINATIONRATESDATALOCATION": data + "/verner_rec_data.txt",
    "HELIUMTWOPHOTONCONTINUUMDATALOCATION": data + "/He2q.dat",
    "FAUCHERGIGUEREDATALOCATION": data + "/fg_uvb_dec11/",
    "DERIJCKEDATALOCATION": data + "/DeRijckeCooling/",
    "WMBASICDATALOCATION": data + "/wmbasic/",
    "PEGASE3DATALOCATION": data + "/Pegase3/",
    "POPSTARDATALOCATION": data + "/PopStar/",
    "CASTELLIKURUCZDATALOCATION": data + "/CastelliKurucz.hdf5",
    "MAX_NUM_THREADS": "64",
    # fixed build identity: nothing here may depend on the build time
    "GIT_BUILD_STRING": "verif-harness",
    "COMPILATION_TIME_DAY": "1", "COMPILATION_TIME_MONTH": "1",
    "COMPILATION_TIME_YEAR": "2026", "COMPILATION_TIME_HOUR": "0",
    "COMPILATION_TIME_MINUTES": "0", "COMPILATION_TIME_SECONDS": "0",
    "COMPILER_NAME": "GNU", "COMPILER_VERSION": "verif",
    "OS_NAME": "GNU/Linux", "OS_KERNEL_NAME": "Linux",
    "OS_KERNEL_RELEASE": "sim", "OS_KERNEL_VERSION": "sim",
    "OS_HARDWARE_NAME": "sim", "OS_HOST_NAME": "sim",
}

defines = ["HAVE_ATOMIC", "HAVE_HDF5", "HAVE_MULTIPRECISION", "HAVE_OPENMP",
           "HAVE_POSIX"]
keys = ",".join('"%s"' % d for d in defines) + ","
vals = ",".join('"True"' for d in defines) + ","
values["CONFIGURATION_OPTIONS_NUMBER"] = "+".join(["0"] + ["1"] * len(defines))
values["CONFIGURATION_OPTIONS_KEYS"] = keys
values["CONFIGURATION_OPTIONS_VALUES"] = vals

for fn in sorted(os.listdir(os.path.join(repo, "src"))):
    if not fn.endswith(".in"):
        continue
    text = open(os.path.join(repo, "src", fn)).read()
    if fn == "Configuration.hpp.in":
        def cmakedefine(m):
            name = m.group(1)
            return "#define %s" % name if name in defines else "/* #undef %s */" % name
        text = re.sub(r"#cmakedefine (\w+)", cmakedefine, text)
    text = re.sub(r"@(\w+)@", lambda m: values.get(m.group(1), ""), text)
    write_if_changed(os.path.join(out, fn[:-3]), text)
