#!/usr/bin/env python3
"""Writes /verif/MANIFEST.json. Edit CLAIMED / NOT_APPLICABLE here and re-run."""
import json
import os
import subprocess

ROOT = os.path.dirname(os.path.dirname(os.path.abspath(__file__)))

NA_PURE = {
    "C02": "pure function of (block, cell contents, packet): no schedule, clock, fault or history in the property, nothing for a simulator to control (DESIGN.md section 7)",
    "C05": "flux symmetries relate calls of a pure function of two gas states; deciding them is input generation/algebra, not simulation (DESIGN.md section 7)",
    "C06": "ionization and thermal balance are pure functions of per-cell estimates and shipped tables; no interleaving, time or fault involved (DESIGN.md section 7)",
    "C11": "exact Riemann solver vs independent solver is an input-quantified numerical oracle with no nondeterminism (DESIGN.md section 7)",
    "C15": "validity / N-version agreement of Voronoi tessellations is quantified over generator sets only; sequential functions of the input (DESIGN.md section 7)",
    "C16": "containment, enumeration and path conservation in the legacy grids are sequential functions of positions, rays and refinement sequences; no fault or schedule in the property (DESIGN.md section 7)",
    "C17": "exact-predicate sign correctness is a pure arithmetic statement over point coordinates (DESIGN.md section 7)",
    "C18": "cross sections, rates and spectrum sampling are pure functions of (ion, frequency, temperature, random number) and data files (DESIGN.md section 7)",
    "C20": "print/parse, unit and snapshot round trips are deterministic sequential transformations of their input with no fault model in the property (DESIGN.md section 7)",
}

# property -> dict(level, text, note, technique, engine, design_ref)
CLAIMED = {
    "C08": dict(
        level="exploration",
        text="Seeded search over interleavings of generated client programs on the real containers "
             "(ThreadSafeVector, TaskQueue, MemorySpace, Task two-lock acquisition, Scheduler stealing, ThreadLock, "
             "AtomicValue); every std::atomic operation is a scheduling point (own ThreadSanitizer runtime shim), "
             "ownership/exactly-once/occupancy/lost-update oracles checked online and at quiescent barriers. "
             "Sampling, not proof: a clean batch is evidence that no explored interleaving breaks the property.",
        note="sequential consistency at the granularity of individual atomic operations; weak-memory reorderings "
             "are not modelled; workload respects the containers' documented capacity preconditions",
        technique="deterministic simulation: seeded fiber scheduler at atomic operations + reference ownership model",
        engine="E-CONT", design_ref="6/C08"),
}

CLAIMED["C01"] = dict(
    level="exploration",
    text="Seeded search over schedules and configurations of whole TaskBasedIonizationSimulation runs executed "
         "inside the simulator (fibers instead of OpenMP threads, every AtomicValue operation and - in 60% of "
         "the runs - every packet and task event a scheduling point), and of the radiation step of whole "
         "TaskBasedRadiationHydrodynamicsSimulation runs. "
         "Every packet carries an identity; an online ledger checks launched == requested == terminated exactly "
         "once with a legal cause, the code's own counter, task/packet ownership, bounded liveness (no progress "
         "event for the step budget, second half under a fair policy), that source buffers are filled by one "
         "task at a time and within capacity, that a subgrid lock is held by the thread that runs a traversal task "
         "on it and is released by the thread that holds it, and that no buffer, task, queue entry or "
         "outgoing buffer survives an iteration. A third of the multi-thread runs repeat the case with the buffer "
         "and task pools cut down to (twice, 1.25 times or just above) the occupancy measured in a first run, so "
         "that slots are reused while other threads still hold references; an exhaustion guard ends such a run as "
         "inconclusive before a pool can run out. Sampling: evidence, not proof.",
    note="pool/queue capacities otherwise generated above any possible need (the property's premise); sequential "
         "consistency at AtomicValue granularity; runs that still make progress after the total point cap "
         "are abandoned as inconclusive and counted",
    technique="deterministic simulation: seeded fiber scheduler + packet-identity ledger over recorded history",
    engine="E-ION", design_ref="6/C01")
CLAIMED["C03"] = dict(
    level="exploration",
    text="Same simulated runs as C01 with a reference model: every launched or re-emitted packet segment is "
         "recorded (hooks H4/H5) and re-traced sequentially through one undivided DensitySubGrid holding the same "
         "cell contents (harness-side periodic wrapping); per-cell estimators of all fourteen ions and the "
         "hydrogen heating term after folding the copies (metal abundances are non-zero in most runs with "
         "Verner data, so that these estimators are not trivially zero), "
         "absorbed/escaped outcome and absorption position must agree within a round-off budget derived per "
         "packet; every hand-over is checked against the geometry (opposite element, geometric neighbour or a "
         "copy of it, same position on the entry boundary); neighbour tables of originals and copies are checked "
         "against the layout.",
    note="errors common to DensitySubGrid::interact on any grid cancel (that is C02); tolerance = 1e-9 of the "
         "grid maximum plus per-packet allowances for optical-depth round-off in transparent cells and for "
         "packets nearly parallel to walls; packets starting within round-off of an open box wall follow the "
         "system's decision",
    technique="deterministic simulation: refinement of recorded packet history against a single-block reference model",
    engine="E-ION", design_ref="6/C03")

CLAIMED["C19"] = dict(
    level="exploration",
    text="Generated (start, end, minimum, maximum) settings and histories of requested steps (constant, growing, "
         "shrinking, CFL-like, exact powers of two and their floating-point neighbours, 30 decades, requests "
         "around the configured minimum; limits drawn as arbitrary values or as exact power-of-two fractions of "
         "the interval) with "
         "save/restore faults at seeded positions through the real RestartWriter/RestartReader (including restore "
         "from a stale dump followed by replay); every advance() is compared with an exact integer reference model "
         "of the time line (power-of-two step, divides the remainder, never beyond the end, has-next exactly at "
         "the end, final time equals the end).",
    note="exactness is evaluated in the integer domain; the physical end time must equal `end` bit for bit when "
         "start == 0 (the value both drivers pass), for start != 0 a one-ulp difference is counted as a note",
    technique="deterministic simulation of request histories with save/restore fault injection against an exact reference model",
    engine="E-TL", design_ref="6/C19")
CLAIMED["C14"] = dict(
    level="fault_enumeration",
    text="Real RestartManager/RestartWriter on the real file system in forked children. A fault-free pass checks "
         "the rotation after every dump against a vector model; then for every file-system operation (open, "
         "write, writev, close, rename) of every dump of the history the process is killed before / after / in the "
         "middle of (torn write) that operation and the surviving directory is inspected: every dump the rotation "
         "rule keeps must still be on disk complete and checksum-valid. Histories include points at which the "
         "process is replaced by one restarted in place. Thorough runs enumerate the complete grid "
         "backups 0..8 x dumps 0..20 with all crash points; quick runs a subset plus seeded samples. A second, "
         "system-level part (E-RHD, seeded sampling) kills whole task-based RHD runs at a numbered file operation of "
         "a restart dump, compares the surviving files byte for byte with the complete dumps of the uninterrupted "
         "run, restarts from the newest complete one (must repeat the uninterrupted run bit for bit) and kills the "
         "restarted process again during its first dump.",
    note="crash model = process death (data handed to the kernel survives, stream buffers are lost); no power-loss "
         "/ fsync model, matching the property's wording",
    technique="deterministic simulation with crash-point enumeration over a simulated file layer",
    engine="E-FS", design_ref="6/C14")

CLAIMED["C07"] = dict(
    level="exploration",
    text="Whole task-based RHD runs (do_simulation, pure hydro, 2-4 steps) inside the simulator over generated "
         "layouts (1-4 subgrids per axis, all periodicity combinations incl. periodic axes with one or two "
         "subgrids, reflective/inflow/outflow walls) and 1-16 simulated threads. The start/stop trace of every "
         "hydro task is checked against a task graph derived from layout and boundary types alone: exactly once, "
         "after all tasks it depends on, never concurrently with a task touching the same subgrid (task start is "
         "itself a scheduling point), lock of every touched subgrid held by the executing thread, progress-based "
         "termination verdict, empty counters/queues afterwards, and the code's own task tables match the graph. "
         "In 15% of the runs the simulation is stopped after the first step and restarted from its dump with the "
         "same or another number of threads, so that steps on rebuilt task tables and queues are covered too.",
    note="sequential consistency at AtomicValue granularity; the data-race consequences of a missing lock are seen "
         "through the overlap / lock-holder oracle, not through a memory model",
    technique="deterministic simulation: seeded fiber scheduler + trace check against a reference task graph",
    engine="E-RHD", design_ref="6/C07")
CLAIMED["C10"] = dict(
    level="exploration",
    text="Same simulated RHD runs with a fixed time step; after every step all cell states (conserved and "
         "primitive variables, global cell order) are compared with a plain sequential execution of the scheme's "
         "sweeps on one undivided block started from the same state (harness calls the sweep functions in "
         "canonical order, periodic axes through the block's self-neighbour sweep). Tolerance 1e-11 of the local "
         "scale for conserved variables (measured maximum on the unchanged tree: 8e-14), propagated to the "
         "primitive variables.",
    note="the reference reuses the code's sweep functions; errors common to both sides belong to C04/C05. "
         "Bitwise run-to-run reproducibility with one thread is exercised by the determinism gate (same seed twice).",
    technique="deterministic simulation: refinement of the simulated parallel step against a sequential reference execution",
    engine="E-RHD", design_ref="6/C10")
CLAIMED["C04"] = dict(
    level="exploration",
    text="Same simulated RHD runs over generated initial states (background + blocks: density contrasts 1e-8..1e3, "
         "temperature contrasts, velocities up to Mach 2), adiabatic indices, cell shapes, fixed and CFL steps, "
         "layouts and thread counts. Per step: totals of mass, momentum, energy in long double with compensated "
         "summation must agree within 1e-12 in periodic boxes (all five) and in closed boxes with reflecting walls "
         "(mass, energy; only when no reconstructed state at a wall face runs into the wall faster than 1.5 times its "
         "sound speed - the property's own limit, reported by the code through a guarded probe), "
         "unless a positivity clamp fired; all cell states finite and non-negative after every step.",
    note="input dimension is sampled by the swarm; conservation is not demanded in steps where a positivity clamp "
         "fired (counted) or gas hits a wall faster than Mach 1.5 (counted)",
    technique="deterministic simulation: conservation invariants checked per step over seeded schedules and inputs",
    engine="E-RHD", design_ref="6/C04")

CLAIMED["C09"] = dict(
    level="exploration",
    text="Restart experiments on whole pure-hydro RHD runs with one simulated thread: uninterrupted run A (dump and "
         "state digest after every step); chains of 1-3 stops at seeded steps by four real mechanisms "
         "(--number-of-steps, stop file, simulated wall clock beyond 'maximum time', SIGINT), each followed by "
         "--restart from the dump left behind. Every step after a restart must be bitwise identical to A (digest "
         "over all hydro/ionization variables, step sizes, time, has-next), every later dump byte-identical to A's "
         "outside the timer block and the re-seeded random seed field; a dump per run is read through the same "
         "restart constructors the driver uses and written again (identical bytes).",
    note="components reachable from the task-based RHD dump with the options generated: timers, parameter file, "
         "grid creator, hydro subgrids, cell variables, hydro mask, turbulence forcing, six source distributions "
         "(SingleStar, AsciiFile, UniformRandom, SingleSupernova with feedback, DiscPatch, Caproni; the three that "
         "keep a source log with and without it), live output counters, point-mass gravity, time line, snapshot "
         "and radiation counters. Radiation is off (the property is about pure hydrodynamics); restartable classes "
         "the task-based RHD dump never contains are not covered",
    technique="deterministic simulation: stop/restart fault injection (simulated clock, signal, stop file) with bitwise history comparison",
    engine="E-RHD", design_ref="6/C09")

CLAIMED["C12"] = dict(
    level="exploration",
    text="Whole task-based ionization and RHD runs from generated parameter files (run modes and optional "
         "components widened: writers, initial snapshot, temperature calculation, trackers, task plot; radiation "
         "in RHD, radiative cooling, external gravity, hydro mask, turbulence forcing, live output with all "
         "calculator combinations, source logs, subgrid copies, --task-plot-rhd, restart dumps and a stop + restart "
         "with the same or another number of threads) built with AddressSanitizer + "
         "UndefinedBehaviorSanitizer and executed inside the simulator, so that which slot/buffer/task is reused by "
         "whom is decided by seeded schedules; stack and heap pre-filled with 0xA5 so that uninitialised reads are "
         "hostile and reproducible; plus a heap-perturbation part (same case twice with malloc fill 0x00 / 0xA5 must "
         "give identical snapshots and event log); plus a memcheck part: both engines run whole under valgrind and "
         "ask memcheck after every simulated run whether it reported a decision on uninitialised memory or an "
         "invalid access during that run. Oracle: normal return, no sanitizer / memcheck report / signal / abort, "
         "outputs exist.",
    note="MemorySanitizer cannot be used with the uninstrumented libstdc++/libhdf5; uninitialised-memory decisions "
         "are covered through hostile fill + behavioural comparison and through memcheck (about 50x slower, so fewer "
         "runs). The legacy (non task-based), dust and "
         "emission modes are not simulated. One known finding (cooling table lookup with NaN temperature) is listed "
         "in known_findings.json.",
    technique="deterministic simulation under ASan/UBSan and under valgrind memcheck with seeded schedules, hostile memory fill and heap perturbation",
    engine="E-ION + E-RHD (asan and valgrind variants)", design_ref="6/C12")
CLAIMED["C13"] = dict(
    level="exploration",
    text="Two parts. (1) Run-to-run identity: the same generated photoionization problem (one thread) is executed "
         "twice inside the simulator while everything the simulator owns that is not seed or input is varied "
         "(rdtsc values, heap fill and layout, and in class-B pairs the simulated wall clock incl. jumps); AsciiFile "
         "snapshots must be byte-identical, Gadget/HDF5 snapshots byte-identical with the same simulated clock and "
         "identical up to the creation-time attribute / HDF5 object times (<= 64 bytes) with another clock. "
         "(2) RandomGenerator as a stateful component: histories of draw / integer draw / save / restore (latest "
         "or stale dump) / reseed; every value compared bit for bit with GSL's gsl_rng_ranlxd2 and with an "
         "integer-arithmetic reference, values in [0,1), dumps read back and written again byte-identically.",
    note="'exactly the RANLUX (ranlxd2) sequence' = GSL's gsl_rng_ranlxd2 stream for seeds 0..2^31-1; the wall "
         "clock is an input of the Gadget writer by design (class A/B split stated in DESIGN.md)",
    technique="deterministic simulation: paired executions under varied simulator-owned nondeterminism; save/restore fault histories against reference generators",
    engine="E-ION + E-RNG", design_ref="6/C13")

PENDING = {}


def main():
    props = [json.loads(l) for l in open(os.path.join(ROOT, "properties.jsonl"))]
    ids = [p["id"] for p in props]
    checks = []
    for pid in ids:
        if pid not in CLAIMED:
            continue
        c = CLAIMED[pid]
        checks.append({
            "property_id": pid,
            "quick_cmd": "./check %s quick" % pid,
            "thorough_cmd": "./check %s thorough" % pid,
            "evidence_file": "/verif/evidence/%s.json" % pid,
            "replay_cmd_template": "./check %s --replay {path}" % pid,
            "engine": c["engine"],
            "level_claimed": {"category": c["level"], "text": c["text"],
                              "design_ref": "DESIGN.md section " + c["design_ref"]},
            "level_note": c["note"],
            "technique": c["technique"],
        })
    na = []
    for pid in ids:
        if pid in CLAIMED:
            continue
        if pid in NA_PURE:
            na.append({"property_id": pid, "reason": NA_PURE[pid]})
        else:
            na.append({"property_id": pid, "reason": PENDING.get(
                pid, "simulation target per DESIGN.md, but its check is not built yet in this tree; not claimed until it is")})
    try:
        commits = subprocess.run(
            ["git", "-C", "/repo", "log", "--format=%H %s", "--grep=^verif hook"],
            capture_output=True, text=True).stdout.strip().splitlines()
    except Exception:
        commits = []
    manifest = {
        "version": 1,
        "setup_cmd": "make -s -j16 setup",
        "hooks": {
            "guard": "CMACIONIZE_VERIF",
            "enable": "harness objects are compiled from /repo/src with -DCMACIONIZE_VERIF (and "
                      "-DCMACIONIZE_VERIF_PHOTONBUFFER_SIZE=<n> for the small-buffer variants) by /verif/Makefile; "
                      "the hooks call extern \"C\" functions defined in /verif/detsim",
            "baseline_off_cmd": "cd /repo && (cmake --build _build -j16 -- -k0 >/dev/null 2>&1; "
                                "ctest --test-dir _build -j8 --timeout 900)",
            "source_commits": [c.split()[0] for c in commits],
            "add_only": True,
        },
        "engines": [
            {"name": "E-CONT", "path": "engines/econt.cpp", "serves_properties": ["C08"],
             "kind_free_text": "client fibers on the real scheduler containers, synthetic workload"},
            {"name": "E-TL", "path": "engines/etl.cpp", "serves_properties": ["C19"],
             "kind_free_text": "TimeLine driven by request histories with save/restore faults"},
            {"name": "E-FS", "path": "engines/efs.cpp", "serves_properties": ["C14"],
             "kind_free_text": "restart dump rotation in forked children with process death at numbered file-system operations"},
            {"name": "E-RHD", "path": "engines/erhd.cpp", "serves_properties": ["C01", "C04", "C07", "C09", "C10", "C12", "C14"],
             "kind_free_text": "whole TaskBasedRadiationHydrodynamicsSimulation::do_simulation runs inside the simulator"},
            {"name": "E-RNG", "path": "engines/erng.cpp", "serves_properties": ["C13"],
             "kind_free_text": "RandomGenerator under draw/save/restore/reseed histories against GSL ranlxd2"},
            {"name": "E-ION", "path": "engines/eion.cpp", "serves_properties": ["C01", "C03", "C12", "C13"],
             "kind_free_text": "whole TaskBasedIonizationSimulation runs from generated parameter files inside the simulator"},
        ],
        "checks": checks,
        "not_applicable": na,
        "notes": "Technique family: deterministic simulation with fault injection (see DESIGN.md). "
                 "Exit 2 of a check = build failure or simulator nondeterminism (machinery problem, not a verdict).",
    }
    with open(os.path.join(ROOT, "MANIFEST.json"), "w") as f:
        json.dump(manifest, f, indent=1)
        f.write("\n")


if __name__ == "__main__":
    main()
