// Shared parts of the whole-simulation ionization engine (E-ION):
// configuration <-> JSON, parameter file generation, the listener that turns
// hook events into the packet ledger (C01) and the recorded history for the
// reference model (C03).
#ifndef ION_MODEL_HPP
#define ION_MODEL_HPP

#include "../detsim/driver.hpp"

#include "DensitySubGrid.hpp"
#include "DensitySubGridCreator.hpp"
#include "MemorySpace.hpp"
#include "PhotonBuffer.hpp"
#include "PhotonPacket.hpp"
#include "Task.hpp"
#include "TaskQueue.hpp"
#include "ThreadSafeVector.hpp"
#include "TravelDirections.hpp"
#include "VerifHooks.hpp"

#include <cmath>
#include <cstdarg>
#include <fstream>
#include <map>
#include <set>
#include <sstream>
#include <unordered_map>
#include <unordered_set>

namespace ion {

using namespace detsim;

inline std::string sfmt(const char *f, ...) {
  char buf[1024];
  va_list ap;
  va_start(ap, f);
  vsnprintf(buf, sizeof buf, f, ap);
  va_end(ap);
  return buf;
}

// ------------------------------------------------------------ directions ---
// sign triple <-> TravelDirection, written from the documented meaning of the
// enumerators (P = upper side, N = lower side), independent of the lookup
// tables in TravelDirections.hpp
inline int dir_from_signs(int sx, int sy, int sz) {
  auto pn = [](int s) { return s > 0 ? 0 : 1; }; // P first, then N
  const int nz = (sx != 0) + (sy != 0) + (sz != 0);
  if (nz == 0)
    return TRAVELDIRECTION_INSIDE;
  if (nz == 3)
    return TRAVELDIRECTION_CORNER_PPP + 4 * pn(sx) + 2 * pn(sy) + pn(sz);
  if (nz == 2) {
    if (sx == 0)
      return TRAVELDIRECTION_EDGE_X_PP + 2 * pn(sy) + pn(sz);
    if (sy == 0)
      return TRAVELDIRECTION_EDGE_Y_PP + 2 * pn(sx) + pn(sz);
    return TRAVELDIRECTION_EDGE_Z_PP + 2 * pn(sx) + pn(sy);
  }
  if (sx != 0)
    return TRAVELDIRECTION_FACE_X_P + pn(sx);
  if (sy != 0)
    return TRAVELDIRECTION_FACE_Y_P + pn(sy);
  return TRAVELDIRECTION_FACE_Z_P + pn(sz);
}
inline void signs_from_dir(int d, int s[3]) {
  for (int sx = -1; sx <= 1; ++sx)
    for (int sy = -1; sy <= 1; ++sy)
      for (int sz = -1; sz <= 1; ++sz)
        if (dir_from_signs(sx, sy, sz) == d) {
          s[0] = sx;
          s[1] = sy;
          s[2] = sz;
          return;
        }
  s[0] = s[1] = s[2] = 0;
}

// ---------------------------------------------------------- configuration ---
struct Cfg {
  int ncell[3] = {8, 8, 8};
  int nsub[3] = {2, 2, 2};
  bool periodic[3] = {false, false, false};
  bool dyadic = true;        // box coordinates exactly representable
  double anchor[3] = {0, 0, 0}; // metres
  double sides[3] = {1, 1, 1};  // metres
  int threads = 2;
  long packets = 500;
  int iterations = 1;
  int copy_level = 0;
  struct Source {
    double f[3]; // position as fraction of the box
    double lum;
  };
  std::vector< Source > sources;
  int continuous = 0; // 0 none, 1 isotropic, 2 planar
  int planar_axis = 2;
  double planar_f = 0.5;
  int diffuse = 0; // 0 off, 1 FixedValue, 2 Physical
  double reemit_p = 0.364;
  double density = 1e8;      // m^-3
  double xH = 1.0;           // initial neutral fraction
  int nblocks = 0;           // BlockSyntax blocks on top of the background
  uint64_t block_seed = 1;
  int spectrum = 0;          // 0 monochromatic + fixed cross sections, 1 Planck + Verner
  // non-zero metal abundances (with Verner data only): the path-length
  // estimators of the twelve metal ions are non-zero then; helium stays 0 so
  // that the opacity is hydrogen's alone
  bool metals = false;
  int seed = 42;
  bool task_plot = false;
  bool initial_snapshot = false;
  int writer = 0; // 0 AsciiFile, 1 Gadget
  bool temperature = false;
  bool trackers = false;
  int fields_mask = 0; // non-default output fields switched on
  int tracker_variant = 0; // 0: one Spectrum tracker; else number and types
  long nbuffers = 0, ntasks = 0, queue = 0; // 0 = derive
  // swarm knob: run the case once with capacities that can never be
  // exhausted, then again with pools just twice as large as that run needed,
  // so that slot indices wrap around and freed slots are reused at once
  bool tight_pools = false;
  // how close to the measured occupancy the reduced pools are cut:
  // 0: 2x + 32/64, 1: 1.25x + 8, 2: + 4 (plus the margin of the exhaustion guard)
  int pool_slack = 0;
  // fraction of launched packets that the harness redirects onto lattice
  // directions (through cell corners and along cell edges), so that the edge
  // and corner hand-over classes, which random directions never produce, are
  // exercised
  double special = 0.;
  Sched sched;

  Json to_json() const {
    Json j = Json::object();
    auto arr3i = [](const int *v) {
      Json a = Json::array();
      for (int k = 0; k < 3; ++k)
        a.push(v[k]);
      return a;
    };
    auto arr3b = [](const bool *v) {
      Json a = Json::array();
      for (int k = 0; k < 3; ++k)
        a.push(Json(v[k]));
      return a;
    };
    auto arr3d = [](const double *v) {
      Json a = Json::array();
      for (int k = 0; k < 3; ++k)
        a.push(dbl_bits(v[k]));
      return a;
    };
    j["ncell"] = arr3i(ncell);
    j["nsub"] = arr3i(nsub);
    j["periodic"] = arr3b(periodic);
    j["dyadic"] = dyadic;
    j["anchor"] = arr3d(anchor);
    j["sides"] = arr3d(sides);
    j["threads"] = threads;
    j["packets"] = (long long)packets;
    j["iterations"] = iterations;
    j["copy_level"] = copy_level;
    Json s = Json::array();
    for (auto &src : sources) {
      Json e = Json::object();
      e["f"] = arr3d(src.f);
      e["lum"] = dbl_bits(src.lum);
      s.push(e);
    }
    j["sources"] = s;
    j["continuous"] = continuous;
    j["planar_axis"] = planar_axis;
    j["planar_f"] = dbl_bits(planar_f);
    j["diffuse"] = diffuse;
    j["reemit_p"] = dbl_bits(reemit_p);
    j["density"] = dbl_bits(density);
    j["xH"] = dbl_bits(xH);
    j["nblocks"] = nblocks;
    j["block_seed"] = Json(std::to_string(block_seed));
    j["spectrum"] = spectrum;
    j["seed"] = seed;
    j["task_plot"] = task_plot;
    j["initial_snapshot"] = initial_snapshot;
    j["writer"] = writer;
    j["temperature"] = temperature;
    j["trackers"] = trackers;
    j["tracker_variant"] = tracker_variant;
    j["fields_mask"] = fields_mask;
    j["tight_pools"] = tight_pools;
    j["metals"] = metals;
    j["pool_slack"] = pool_slack;
    j["nbuffers"] = (long long)nbuffers;
    j["ntasks"] = (long long)ntasks;
    j["queue"] = (long long)queue;
    j["special"] = dbl_bits(special);
    j["sched"] = sched.to_json();
    return j;
  }

  static Cfg from_json(const Json &j) {
    Cfg c;
    for (int k = 0; k < 3; ++k) {
      c.ncell[k] = (int)j.at("ncell").a.at(k).as_int(8);
      c.nsub[k] = (int)j.at("nsub").a.at(k).as_int(1);
      c.periodic[k] = j.at("periodic").a.at(k).as_bool();
      c.anchor[k] = bits_dbl(j.at("anchor").a.at(k).as_string());
      c.sides[k] = bits_dbl(j.at("sides").a.at(k).as_string());
    }
    c.dyadic = j.at("dyadic").as_bool(true);
    c.threads = (int)j.at("threads").as_int(2);
    c.packets = j.at("packets").as_int(500);
    c.iterations = (int)j.at("iterations").as_int(1);
    c.copy_level = (int)j.at("copy_level").as_int(0);
    for (auto &e : j.at("sources").a) {
      Source s;
      for (int k = 0; k < 3; ++k)
        s.f[k] = bits_dbl(e.at("f").a.at(k).as_string());
      s.lum = bits_dbl(e.at("lum").as_string());
      c.sources.push_back(s);
    }
    c.continuous = (int)j.at("continuous").as_int(0);
    c.planar_axis = (int)j.at("planar_axis").as_int(2);
    c.planar_f = bits_dbl(j.at("planar_f").as_string("0x3fe0000000000000"));
    c.diffuse = (int)j.at("diffuse").as_int(0);
    c.reemit_p = bits_dbl(j.at("reemit_p").as_string("0x3fd74bc6a7ef9db2"));
    c.density = bits_dbl(j.at("density").as_string());
    c.xH = bits_dbl(j.at("xH").as_string());
    c.nblocks = (int)j.at("nblocks").as_int(0);
    c.block_seed = j.at("block_seed").as_u64(1);
    c.spectrum = (int)j.at("spectrum").as_int(0);
    c.seed = (int)j.at("seed").as_int(42);
    c.task_plot = j.at("task_plot").as_bool();
    c.initial_snapshot = j.at("initial_snapshot").as_bool();
    c.writer = (int)j.at("writer").as_int(0);
    c.temperature = j.at("temperature").as_bool();
    c.trackers = j.at("trackers").as_bool();
    c.tracker_variant = (int)j.at("tracker_variant").as_int(0);
    c.fields_mask = (int)j.at("fields_mask").as_int(0);
    c.tight_pools = j.at("tight_pools").as_bool();
    c.metals = j.at("metals").as_bool();
    c.pool_slack = (int)j.at("pool_slack").as_int(0);
    c.nbuffers = j.at("nbuffers").as_int(0);
    c.ntasks = j.at("ntasks").as_int(0);
    c.queue = j.at("queue").as_int(0);
    c.special = j.has("special") ? bits_dbl(j.at("special").as_string()) : 0.;
    c.sched = Sched::from_json(j.at("sched"));
    return c;
  }

  int total_subgrids() const { return nsub[0] * nsub[1] * nsub[2]; }

  void position(const Source &s, double p[3]) const {
    for (int k = 0; k < 3; ++k)
      p[k] = anchor[k] + s.f[k] * sides[k];
  }

  // capacities that can never be exhausted (the property's premise)
  void capacities(long &nb, long &nt, long &nq) const {
    const long copies = total_subgrids() * (1L << copy_level);
    nb = nbuffers > 0 ? nbuffers : packets + 27 * copies + 64;
    nt = ntasks > 0 ? ntasks : (task_plot ? 400000 : 3 * nb + 256);
    nq = queue > 0 ? queue : nt;
  }

  std::string vec(const double *v, const char *unit) const {
    return sfmt("[%.17g %s, %.17g %s, %.17g %s]", v[0], unit, v[1], unit, v[2],
                unit);
  }

  // write the parameter file (+ auxiliary files) into dir; returns its path
  std::string write_files(const std::string &dir,
                          const std::string &name = "sim.param") const {
    long nb, nt, nq;
    capacities(nb, nt, nq);
    std::ostringstream o;
    o << "SimulationBox:\n";
    o << "  anchor: " << vec(anchor, "m") << "\n";
    o << "  sides: " << vec(sides, "m") << "\n";
    o << "  periodicity: ["
      << (periodic[0] ? "true" : "false") << ", "
      << (periodic[1] ? "true" : "false") << ", "
      << (periodic[2] ? "true" : "false") << "]\n";
    o << "DensityGrid:\n  type: Cartesian\n";
    o << sfmt("  number of cells: [%d, %d, %d]\n", ncell[0], ncell[1],
              ncell[2]);
    o << "DensitySubGridCreator:\n";
    o << sfmt("  number of subgrids: [%d, %d, %d]\n", nsub[0], nsub[1],
              nsub[2]);
    o << "  periodicity: ["
      << (periodic[0] ? "true" : "false") << ", "
      << (periodic[1] ? "true" : "false") << ", "
      << (periodic[2] ? "true" : "false") << "]\n";
    if (nblocks == 0) {
      o << "DensityFunction:\n  type: Homogeneous\n";
      o << sfmt("  density: %.17g m^-3\n", density);
      o << "  temperature: 8000. K\n";
      o << sfmt("  neutral fraction H: %.17g\n", xH);
    } else {
      o << "DensityFunction:\n  type: BlockSyntax\n  filename: " << dir
        << "/blocks.yml\n";
      std::ofstream b(dir + "/blocks.yml");
      b << "number of blocks: " << nblocks + 1 << "\n";
      double centre[3], big[3];
      for (int k = 0; k < 3; ++k) {
        centre[k] = anchor[k] + 0.5 * sides[k];
        big[k] = 4. * sides[k];
      }
      b << "block[0]:\n  origin: " << vec(centre, "m") << "\n  sides: "
        << vec(big, "m") << "\n  type: cube\n"
        << sfmt("  number density: %.17g m^-3\n", density)
        << "  initial temperature: 8000. K\n"
        << sfmt("  neutral fraction H: %.17g\n", xH);
      Rng r(block_seed);
      for (int i = 1; i <= nblocks; ++i) {
        double org[3], sd[3];
        for (int k = 0; k < 3; ++k) {
          org[k] = anchor[k] + r.unit() * sides[k];
          sd[k] = (0.1 + 0.6 * r.unit()) * sides[k];
        }
        const char *types[] = {"cube", "sphere", "rhombus"};
        const double fac[] = {0., 1e-3, 0.1, 3., 30.};
        b << "block[" << i << "]:\n  origin: " << vec(org, "m")
          << "\n  sides: " << vec(sd, "m") << "\n  type: "
          << types[r.below(3)] << "\n"
          << sfmt("  number density: %.17g m^-3\n", density * fac[r.below(5)])
          << "  initial temperature: 8000. K\n"
          << sfmt("  neutral fraction H: %.17g\n",
                  r.chance(0.5) ? xH : std::min(1., xH * 10.));
      }
    }
    if (sources.empty()) {
      o << "PhotonSourceDistribution:\n  type: None\n";
    } else if (sources.size() == 1) {
      double p[3];
      position(sources[0], p);
      o << "PhotonSourceDistribution:\n  type: SingleStar\n  position: "
        << vec(p, "m") << "\n"
        << sfmt("  luminosity: %.17g s^-1\n", sources[0].lum);
    } else {
      o << "PhotonSourceDistribution:\n  type: AsciiFile\n  filename: " << dir
        << "/sources.yml\n";
      std::ofstream s(dir + "/sources.yml");
      s << "number of sources: " << sources.size() << "\n";
      for (size_t i = 0; i < sources.size(); ++i) {
        double p[3];
        position(sources[i], p);
        s << "source[" << i << "]:\n  position: " << vec(p, "m") << "\n"
          << sfmt("  luminosity: %.17g s^-1\n", sources[i].lum);
      }
    }
    if (spectrum == 0) {
      o << "PhotonSourceSpectrum:\n  type: Monochromatic\n  frequency: 13.6 "
           "eV\n";
    } else {
      o << "PhotonSourceSpectrum:\n  type: Planck\n  temperature: 40000. K\n";
    }
    if (continuous == 1) {
      o << "ContinuousPhotonSource:\n  type: Isotropic\n";
    } else if (continuous == 2) {
      const char *ax[] = {"x", "y", "z"};
      const int a0 = (planar_axis + 1) % 3, a1 = (planar_axis + 2) % 3;
      const int lo = std::min(a0, a1), hi = std::max(a0, a1);
      o << "ContinuousPhotonSource:\n  type: Planar\n  normal axis: "
        << ax[planar_axis] << "\n"
        << sfmt("  intercept: %.17g m\n",
                anchor[planar_axis] + planar_f * sides[planar_axis])
        << sfmt("  anchor 0: %.17g m\n  anchor 1: %.17g m\n", anchor[lo],
                anchor[hi])
        << sfmt("  side 0: %.17g m\n  side 1: %.17g m\n", sides[lo], sides[hi])
        << "  luminosity: 1.e48 s^-1\n";
    } else {
      o << "ContinuousPhotonSource:\n  type: None\n";
    }
    if (continuous != 0) {
      if (spectrum == 0)
        o << "ContinuousPhotonSourceSpectrum:\n  type: Monochromatic\n  "
             "frequency: 13.6 eV\n  total flux: 1.e14 m^-2 s^-1\n";
      else
        o << "ContinuousPhotonSourceSpectrum:\n  type: Planck\n  temperature: "
             "30000. K\n  ionizing flux: 1.e14 m^-2 s^-1\n";
    }
    if (spectrum == 0) {
      o << "CrossSections:\n  type: FixedValue\n  hydrogen_0: 6.3e-18 cm^2\n";
      o << "RecombinationRates:\n  type: FixedValue\n  hydrogen_1: 4.e-13 "
           "cm^3 s^-1\n";
    } else {
      o << "CrossSections:\n  type: Verner\n";
      o << "RecombinationRates:\n  type: Verner\n";
      if (metals)
        o << "AbundanceModel:\n  type: FixedValue\n  He: 0.\n  C: 2.2e-4\n  N: "
             "4.e-5\n  O: 3.3e-4\n  Ne: 5.e-5\n  S: 9.e-6\n";
    }
    o << "TemperatureCalculator:\n  do temperature calculation: "
      << (temperature ? "true" : "false") << "\n";
    if (diffuse == 1)
      o << "DiffuseReemissionHandler:\n  type: FixedValue\n"
        << sfmt("  reemission probability: %.17g\n", reemit_p)
        << "  reemission frequency: 13.6 eV\n";
    else if (diffuse == 2)
      o << "DiffuseReemissionHandler:\n  type: Physical\n";
    o << "TaskBasedIonizationSimulation:\n";
    o << "  number of photons: " << packets << "\n";
    o << "  number of iterations: " << iterations << "\n";
    o << "  source copy level: " << copy_level << "\n";
    o << "  number of buffers: " << nb << "\n";
    o << "  number of tasks: " << nt << "\n";
    o << "  queue size per thread: " << nq << "\n";
    o << "  shared queue size: " << nq << "\n";
    o << "  random seed: " << seed << "\n";
    o << "  diffuse field: " << (diffuse ? "true" : "false") << "\n";
    o << "  enable trackers: " << (trackers ? "true" : "false") << "\n";
    o << "  output folder: " << dir << "\n";
    if (fields_mask != 0) {
      // non-default output fields
      o << "DensityGridWriterFields:\n";
      if (fields_mask & 1)
        o << "  Temperature: 1\n";
      if (fields_mask & 2)
        o << "  CosmicRayFactor: 1\n";
      if (fields_mask & 4)
        o << "  NumberDensity: 1\n";
      if (fields_mask & 8) // the neutral fraction of a later ion only
        o << "  NeutralFractionH: 0\n  NeutralFractionHe: 1\n";
    }
    o << "DensityGridWriter:\n  type: " << (writer == 0 ? "AsciiFile" : "Gadget")
      << "\n  prefix: snap_\n  padding: 3\n";
    if (trackers) {
      o << "TrackerManager:\n  filename: " << dir << "/trackers.yml\n";
      std::ofstream t(dir + "/trackers.yml");
      double p[3];
      for (int k = 0; k < 3; ++k)
        p[k] = anchor[k] + 0.3 * sides[k];
      if (tracker_variant == 0) {
        t << "number of trackers: 1\ntracker[0]:\n  type: Spectrum\n  position: "
          << vec(p, "m") << "\n  output name: " << dir
          << "/tracker0.txt\n  minimum frequency: 13.6 eV\n  maximum "
             "frequency: 54.4 eV\n  number of bins: 10\n";
      } else {
        // 1-3 trackers of the three types; the first one next to the first
        // source (inside a subgrid that has copies when the copy level > 0)
        const int ntr = 1 + tracker_variant % 3;
        t << "number of trackers: " << ntr << "\n";
        for (int i = 0; i < ntr; ++i) {
          double q[3];
          for (int k = 0; k < 3; ++k) {
            double f = 0.3 + 0.2 * i;
            if (i == 0 && !sources.empty())
              f = std::min(0.97, std::max(0.03, sources[0].f[k] + 0.01));
            q[k] = anchor[k] + f * sides[k];
          }
          const int type = (tracker_variant / 3 + i) % 3;
          t << "tracker[" << i << "]:\n  type: "
            << (type == 0 ? "Spectrum" : type == 1 ? "WeightedSpectrum" : "Absorption")
            << "\n  position: " << vec(q, "m") << "\n  output name: " << dir
            << "/tracker" << i << ".txt\n";
          if (type == 0)
            t << "  minimum frequency: 13.6 eV\n  maximum frequency: 54.4 "
                 "eV\n  number of bins: 10\n";
          else if (type == 1)
            t << "  FrequencyBins:\n    type: Linear\n    number of bins: 10\n"
                 "    minimum frequency: 13.6 eV\n    maximum frequency: 54.4 "
                 "eV\n";
        }
      }
    }
    const std::string path = dir + "/" + name;
    std::ofstream f(path);
    f << o.str();
    return path;
  }
};

// ---------------------------------------------------------------- ledger ---
struct Segment {
  uint64_t id;
  int iteration;
  double pos[3], dir[3], tau, weight, energy;
  double sigma[NUMBER_OF_IONNAMES];
  // outcome in the simulated system
  int outcome = -1; // 0 absorbed, 1 escaped, -1 unknown (still travelling)
  double end_pos[3] = {0, 0, 0};
};

struct Violation {
  std::string vclass, message;
};

// geometry helper shared by oracle code
struct Layout {
  Cfg cfg;
  double sub_side[3], cell[3];
  void init(const Cfg &c) {
    cfg = c;
    for (int k = 0; k < 3; ++k) {
      sub_side[k] = c.sides[k] / c.nsub[k];
      cell[k] = c.sides[k] / c.ncell[k];
    }
  }
  int norig() const { return cfg.total_subgrids(); }
  void sub_pos(int index, int p[3]) const {
    p[0] = index / (cfg.nsub[1] * cfg.nsub[2]);
    p[1] = (index / cfg.nsub[2]) % cfg.nsub[1];
    p[2] = index % cfg.nsub[2];
  }
  int sub_index(const int p[3]) const {
    return (p[0] * cfg.nsub[1] + p[1]) * cfg.nsub[2] + p[2];
  }
  // geometric neighbour of original subgrid across sign triple s; -1 = outside
  int neighbour(int index, const int s[3]) const {
    int p[3];
    sub_pos(index, p);
    for (int k = 0; k < 3; ++k) {
      p[k] += s[k];
      if (p[k] < 0 || p[k] >= cfg.nsub[k]) {
        if (!cfg.periodic[k])
          return -1;
        p[k] = (p[k] + cfg.nsub[k]) % cfg.nsub[k];
      }
    }
    return sub_index(p);
  }
};

template < class SG > class LedgerT : public Listener {
public:
  Layout lay;
  bool check_handover = true;
  bool record_segments = true;
  // packet state
  enum State { LIVE = 1, DONE = 2 };
  struct Packet {
    uint8_t state = 0;
    int in_task = -1;     // fiber currently processing it, -1 none
    long seg = -1;        // index of the current segment
    // last exit (for the hand-over invariant)
    int out_dir = -1, out_sub = -1;
    long hops = 0;
    double out_pos[3] = {0, 0, 0};
    // position and remaining optical depth at the previous hand-over, and the
    // number of consecutive hand-overs at which neither changed
    double last_out[4] = {0, 0, 0, 0};
    long still_hops = 0;
  };
  std::vector< Packet > packets; // index = id - id_base
  uint64_t id_base = 1, next_id = 1;
  std::vector< Segment > segments;
  int iteration = -1;
  long requested = 0, launched = 0, done = 0, done_total = 0;
  // per-fiber current task
  struct CurTask {
    bool active = false;
    int type = 0;
    int subgrid = -1;
    long done_events = 0;
    std::vector< uint64_t > ids;
  };
  std::vector< CurTask > cur;
  // subgrid bookkeeping (filled at iteration begin)
  std::vector< int > original_of;
  DensitySubGridCreator< SG > *creator = nullptr;
  // per-iteration snapshot of the cell contents for the reference model
  std::vector< double > snap_density, snap_xH, snap_xHe;
  // results
  bool failed = false;
  Violation violation;
  std::map< std::string, long long > stats;
  long exit_class_hist[TRAVELDIRECTION_NUMBER];
  std::function< void(LedgerT &, int iloop, const void *const *rec) >
      on_iteration_end;
  uint64_t ledger_hash = FNV_INIT;
  // RHD driver: number of task slots that legitimately stay in use (the
  // persistent hydro tasks); -1 = ionization driver
  long persistent_tasks = -1;
  // ionization driver: the locks and buffers of the continuous source blocks
  std::vector< ThreadLock > *source_locks = nullptr;
  std::vector< std::vector< PhotonBuffer > > *source_buffers = nullptr;
  // the buffer and task pools (ionization driver), and the largest number of
  // slots that were in use at the same time in any iteration
  MemorySpace *pool_buffers = nullptr;
  ThreadSafeVector< Task > *pool_tasks = nullptr;
  long max_buffers_in_use = 0, max_tasks_in_use = 0;
  long total_buffers_taken = 0;
  long buffers_taken_seen = 0; // per iteration, from the occupancy counter
  // Guard for runs with reduced pools: the property's premise is that the
  // pools are never exhausted. The occupancy counters are AtomicValues, so
  // every change passes through on_atomic(); when a pool comes within
  // `pool_margin` slots of its capacity the run is abandoned as inconclusive
  // (before get_free_buffer() can return "no slot").
  long pool_margin = 0; // 0 = guard off
  bool check_lock_owner = true;
  bool pool_exhausted = false;
  // subgrid locks seen as the dependency of a traversal task
  std::unordered_set< const void * > dep_locks;
  virtual void on_atomic(const void *addr, int op, long pre, long post) {
    (void)pre;
    if (op < 0)
      return;
    // lock discipline: the lock of a subgrid is released by the thread that
    // holds it (a task slot that is given back before its dependency is
    // unlocked can be reused in between: the late unlock then releases the
    // lock of another task's subgrid)
    if (op == CMI_VERIF_OP_UNLOCK && check_lock_owner && dep_locks.count(addr)) {
      ++stats["subgrid_unlock_checks"];
      const int holder = last_unlock_holder(), me = current_fiber();
      if (holder != me)
        fail("lock-not-held",
             sfmt("thread %d released a subgrid lock that it does not hold "
                  "(holder: %d): a task unlocked the dependency of another task",
                  me, holder));
    }
    // occupancy seen directly (the RHD driver resets the pool statistics
    // before its iteration-end record is taken)
    if (pool_buffers &&
        addr == (const void *)&pool_buffers->_memory_space._number_taken) {
      max_buffers_in_use = std::max(max_buffers_in_use, post);
      if (post > pre)
        ++buffers_taken_seen;
    } else if (pool_tasks && addr == (const void *)&pool_tasks->_number_taken) {
      max_tasks_in_use = std::max(max_tasks_in_use, post);
    }
    if (pool_margin <= 0 || pool_exhausted)
      return;
    if ((pool_buffers &&
         addr == (const void *)&pool_buffers->_memory_space._number_taken &&
         post + pool_margin >= (long)pool_buffers->_memory_space._size) ||
        (pool_tasks && addr == (const void *)&pool_tasks->_number_taken &&
         post + pool_margin >= (long)pool_tasks->_size)) {
      pool_exhausted = true;
      request_abort();
    }
  }
  long cap_buffers = 0; // configured capacity of the buffer pool
  // is one of the pools (nearly) exhausted right now? (get_free_* spins then)
  bool pools_full() const {
    return (pool_buffers && cap_buffers > 0 &&
            (long)pool_buffers->get_number_of_active_buffers() + 2 >=
                cap_buffers) ||
           (pool_tasks && pool_tasks->get_number_of_active_elements() + 2 >=
                              pool_tasks->max_size());
  }

  LedgerT() {
    for (int k = 0; k < TRAVELDIRECTION_NUMBER; ++k)
      exit_class_hist[k] = 0;
  }

  // Classes decided by the property this run serves (empty = all). A
  // failure of another property's class is noted and the ledger carries on:
  // it must not hide a violation of the property that is being decided (a
  // broken task graph is C07's business, but the lost conservation that
  // follows from it is C04's).
  std::set< std::string > my_classes;
  std::set< std::string > foreign_classes_seen;
  void fail(const std::string &vclass, const std::string &msg) {
    if (!my_classes.empty() && !my_classes.count(vclass)) {
      foreign_classes_seen.insert(vclass);
      return;
    }
    if (!failed) {
      failed = true;
      violation.vclass = vclass;
      violation.message = msg;
      request_abort(); // no point in running on
    }
  }

  Packet *lookup(uint64_t id) {
    if (id < id_base || id >= next_id)
      return nullptr;
    return &packets[id - id_base];
  }

  CurTask &task_of_fiber() {
    const size_t f = (size_t)current_fiber();
    if (cur.size() <= f)
      cur.resize(f + 1);
    return cur[f];
  }

  void snapshot_cells() {
    const int nx = lay.cfg.ncell[0], ny = lay.cfg.ncell[1],
              nz = lay.cfg.ncell[2];
    snap_density.assign((size_t)nx * ny * nz, 0.);
    snap_xH.assign((size_t)nx * ny * nz, 0.);
    snap_xHe.assign((size_t)nx * ny * nz, 0.);
    for (int sg = 0; sg < lay.norig(); ++sg) {
      DensitySubGrid &g = *creator->get_subgrid((size_t)sg);
      for (auto it = g.begin(); it != g.end(); ++it) {
        const CoordinateVector<> m = it.get_cell_midpoint();
        const long gi = global_cell(m);
        const IonizationVariables &v = it.get_ionization_variables();
        snap_density[(size_t)gi] = v.get_number_density();
        snap_xH[(size_t)gi] = v.get_ionic_fraction(ION_H_n);
#ifdef HAS_HELIUM
        snap_xHe[(size_t)gi] = v.get_ionic_fraction(ION_He_n);
#endif
      }
    }
  }

  long global_cell(const CoordinateVector<> &m) const {
    long g[3];
    for (int k = 0; k < 3; ++k) {
      g[k] = (long)std::floor((m[k] - lay.cfg.anchor[k]) / lay.cell[k]);
      if (g[k] < 0)
        g[k] = 0;
      if (g[k] >= lay.cfg.ncell[k])
        g[k] = lay.cfg.ncell[k] - 1;
    }
    return (g[0] * lay.cfg.ncell[1] + g[1]) * lay.cfg.ncell[2] + g[2];
  }

  void build_originals() {
    const size_t nall = creator->number_of_actual_subgrids();
    original_of.assign(nall, -1);
    for (int sg = 0; sg < lay.norig(); ++sg) {
      original_of[(size_t)sg] = sg;
      auto it = creator->get_subgrid((size_t)sg);
      auto cp = it.get_copies();
      for (auto c = cp.first; c != cp.second; ++c)
        original_of[c.get_index()] = sg;
    }
  }

  void check_structure() {
    // neighbour tables: originals match the geometry, copies match originals
    const size_t nall = creator->number_of_actual_subgrids();
    for (size_t c = 0; c < nall && !failed; ++c) {
      const int o = original_of[c];
      if (o < 0) {
        fail("copy-structure", sfmt("subgrid %zu is neither an original nor a "
                                    "copy of one",
                                    c));
        return;
      }
      DensitySubGrid &g = *creator->get_subgrid(c);
      for (int d = 0; d < TRAVELDIRECTION_NUMBER && !failed; ++d) {
        const uint_fast32_t n = g.get_neighbour(d);
        if (d == 0) {
          if (n != c)
            fail("copy-structure",
                 sfmt("subgrid %zu: neighbour 'inside' is %u", c, (unsigned)n));
          continue;
        }
        int s[3];
        signs_from_dir(d, s);
        const int want = lay.neighbour(o, s);
        if (want < 0) {
          if (n != NEIGHBOUR_OUTSIDE)
            fail("neighbour-table",
                 sfmt("subgrid %zu (original %d) direction %d: neighbour %u "
                      "but the geometry says outside",
                      c, o, d, (unsigned)n));
        } else {
          if (n == NEIGHBOUR_OUTSIDE || n >= nall || original_of[n] != want)
            fail("neighbour-table",
                 sfmt("subgrid %zu (original %d) direction %d: neighbour %u "
                      "(original %d) but the geometric neighbour is %d",
                      c, o, d, (unsigned)n,
                      (n != NEIGHBOUR_OUTSIDE && n < nall) ? original_of[n]
                                                           : -1,
                      want));
        }
      }
    }
  }

  // every copy holds the same cell contents as its original when an
  // iteration starts (the new state was pushed to the copies)
  void check_copy_state() {
    const size_t nall = creator->number_of_actual_subgrids();
    for (size_t c = (size_t)lay.norig(); c < nall && !failed; ++c) {
      DensitySubGrid &cp = *creator->get_subgrid(c);
      DensitySubGrid &og = *creator->get_subgrid((size_t)original_of[c]);
      auto ic = cp.begin();
      auto io = og.begin();
      for (; ic != cp.end() && io != og.end(); ++ic, ++io) {
        const IonizationVariables &a = ic.get_ionization_variables();
        const IonizationVariables &b = io.get_ionization_variables();
        // bitwise: metal fractions can legitimately be NaN (zero rates)
        auto same_bits = [](double u, double v) {
          return memcmp(&u, &v, sizeof(double)) == 0;
        };
        bool same = same_bits(a.get_number_density(), b.get_number_density());
        for (int ion = 0; ion < NUMBER_OF_IONNAMES; ++ion)
          if (!same_bits(a.get_ionic_fraction(ion), b.get_ionic_fraction(ion)))
            same = false;
        if (!same) {
          fail("copy-state",
               sfmt("iteration %d starts with copy %zu of subgrid %d holding "
                    "cell contents that differ from the original (cell %u: "
                    "neutral fraction %.17g vs %.17g)",
                    iteration, c, original_of[c], (unsigned)ic.get_index(),
                    a.get_ionic_fraction(ION_H_n),
                    b.get_ionic_fraction(ION_H_n)));
          return;
        }
      }
    }
    ++stats["copy_state_checks"];
  }

  void begin_segment(Packet &pk, const PhotonPacket &p, uint64_t id) {
    if (!record_segments)
      return;
    Segment s;
    s.id = id;
    s.iteration = iteration;
    for (int k = 0; k < 3; ++k) {
      s.pos[k] = p.get_position()[k];
      s.dir[k] = p.get_direction()[k];
    }
    s.tau = p.get_target_optical_depth();
    s.weight = p.get_weight();
    s.energy = p.get_energy();
    for (int ion = 0; ion < NUMBER_OF_IONNAMES; ++ion)
      s.sigma[ion] = p.get_photoionization_cross_section(ion);
    pk.seg = (long)segments.size();
    segments.push_back(s);
  }

  void end_segment(Packet &pk, const PhotonPacket &p, int outcome) {
    if (!record_segments || pk.seg < 0)
      return;
    Segment &s = segments[(size_t)pk.seg];
    s.outcome = outcome;
    for (int k = 0; k < 3; ++k)
      s.end_pos[k] = p.get_position()[k];
  }

  virtual void on_event(int kind, const void *a, const void *b, long x,
                        long y) {
    if (failed)
      return;
    ledger_hash = fnv1a(ledger_hash, ((uint64_t)kind << 48) ^ (uint64_t)x ^
                                         ((uint64_t)current_fiber() << 40));
    switch (kind) {
    case CMI_VERIF_EVENT_ITERATION_BEGIN: {
      creator = (DensitySubGridCreator< SG > *)a;
      if (b != nullptr) {
        const void *const *br = (const void *const *)b;
        source_locks = (std::vector< ThreadLock > *)br[0];
        source_buffers = (std::vector< std::vector< PhotonBuffer > > *)br[1];
        pool_buffers = (MemorySpace *)br[2];
        pool_tasks = (ThreadSafeVector< Task > *)br[3];
      } else {
        source_locks = nullptr;
        source_buffers = nullptr;
      }
      iteration = (int)x;
      requested = y;
      launched = 0;
      done = 0;
      id_base = next_id;
      packets.clear();
      segments.clear();
      cur.clear();
      build_originals();
      if (iteration == 0)
        check_structure();
      if (record_segments)
        snapshot_cells();
      check_copy_state();
      break;
    }
    case CMI_VERIF_EVENT_PACKET_LAUNCH: {
      PhotonPacket &p = *(PhotonPacket *)a;
      const uint64_t id = next_id++;
      p.set_verif_id(id);
      packets.push_back(Packet());
      Packet &pk = packets.back();
      pk.state = LIVE;
      ++launched;
      ++stats[y == 0 ? "launched_discrete" : "launched_continuous"];
      if (lay.cfg.special > 0. && (size_t)x < original_of.size()) {
        Rng sr(mix64((uint64_t)lay.cfg.seed * 7919u + 13u, id));
        if (sr.chance(lay.cfg.special)) {
          // lattice direction through a cell corner of the launch subgrid
          int sg[3];
          do {
            for (int k = 0; k < 3; ++k)
              sg[k] = (int)sr.range(-1, 1);
            // a direction confined to periodic axes can only end by
            // absorption (millions of box crossings in ionised gas)
            bool leaves = lay.cfg.periodic[0] && lay.cfg.periodic[1] &&
                          lay.cfg.periodic[2];
            for (int k = 0; k < 3; ++k)
              if (sg[k] != 0 && !lay.cfg.periodic[k])
                leaves = true;
            if (!leaves)
              sg[0] = sg[1] = sg[2] = 0;
          } while (sg[0] == 0 && sg[1] == 0 && sg[2] == 0);
          const double norm =
              std::sqrt((double)(sg[0] * sg[0] + sg[1] * sg[1] + sg[2] * sg[2]));
          double box[6];
          (*creator->get_subgrid((size_t)x)).get_grid_box(box);
          CoordinateVector<> pos, dir;
          for (int k = 0; k < 3; ++k) {
            const int nc = lay.cfg.ncell[k] / lay.cfg.nsub[k];
            const long ci = sr.range(0, nc - 1);
            pos[k] = box[k] + (double)ci * (box[3 + k] / nc);
            dir[k] = sg[k] / norm;
          }
          p.set_position(pos);
          p.set_direction(dir);
          ++stats["launched_on_lattice_direction"];
        }
      }
      begin_segment(pk, p, id);
      // the packet sits in the slot the source buffer handed out last: a
      // different slot means that two tasks filled this buffer at once (or
      // that the buffer was filled beyond its capacity)
      if (b != nullptr) {
        PhotonBuffer &sb = *(PhotonBuffer *)b;
        const PhotonPacket *first = &sb[0];
        const long slot = (long)(&p - first);
        if (slot < 0 || slot >= (long)PHOTONBUFFER_SIZE ||
            sb.size() > PHOTONBUFFER_SIZE) {
          fail("buffer-overflow",
               sfmt("packet %llu launched into slot %ld of a source buffer "
                    "with %u slots (buffer size counter %u)",
                    (unsigned long long)id, slot, (unsigned)PHOTONBUFFER_SIZE,
                    (unsigned)sb.size()));
          break;
        }
        // a continuous source task fills the buffers of one block and must
        // hold that block's lock while it does
        if (y == 1 && source_locks && source_buffers) {
          long block = -1;
          for (size_t k = 0; k < source_buffers->size(); ++k) {
            const std::vector< PhotonBuffer > &v = (*source_buffers)[k];
            if (!v.empty() && &sb >= &v[0] && &sb < &v[0] + v.size())
              block = (long)k;
          }
          if (block < 0 || (size_t)block >= source_locks->size()) {
            fail("source-buffer-shared",
                 sfmt("packet %llu launched into a buffer that belongs to no "
                      "continuous source block",
                      (unsigned long long)id));
            break;
          }
          const int holder = lock_holder(&(*source_locks)[(size_t)block]);
          ++stats["source_lock_checks"];
          if (getenv("EION_DEBUG_LOCKS"))
            fprintf(stderr, "launch id %llu fiber %d block %ld holder %d nblocks %zu\n",
                    (unsigned long long)id, current_fiber(), block, holder,
                    source_locks->size());
          if (holder != current_fiber()) {
            fail("lock-not-held",
                 sfmt("packet %llu launched by thread %d into continuous "
                      "source block %ld without holding that block's lock "
                      "(holder: %d)",
                      (unsigned long long)id, current_fiber(), block, holder));
            break;
          }
        }
        // (discrete source tasks size their private buffer up front)
        if (y == 1 && (long)sb.size() != slot + 1) {
          fail("source-buffer-shared",
               sfmt("packet %llu launched into slot %ld of a source buffer "
                    "whose size counter is %u: another task used the buffer "
                    "at the same time",
                    (unsigned long long)id, slot, (unsigned)sb.size()));
          break;
        }
      }
      // the packet must start inside the subgrid it is handed to
      {
        const size_t sg = (size_t)x;
        if (sg >= original_of.size()) {
          fail("launch", sfmt("packet launched into subgrid %zu which does "
                              "not exist",
                              sg));
          break;
        }
        double box[6];
        (*creator->get_subgrid(sg)).get_grid_box(box);
        for (int k = 0; k < 3; ++k) {
          const double rel = p.get_position()[k] - box[k];
          if (rel < -1e-9 * lay.cell[k] || rel > box[3 + k] + 1e-9 * lay.cell[k])
            fail("launch",
                 sfmt("packet %llu launched at coordinate %d = %.17g outside "
                      "subgrid %zu [%.17g, %.17g]",
                      (unsigned long long)id, k, p.get_position()[k], sg,
                      box[k], box[k] + box[3 + k]));
        }
      }
      break;
    }
    case CMI_VERIF_EVENT_TASK_BEGIN: {
      PhotonBuffer &buf = *(PhotonBuffer *)a;
      CurTask &t = task_of_fiber();
      if (t.active) {
        fail("task-nesting", "a task began while the same thread was still "
                             "inside another task");
        break;
      }
      t.active = true;
      t.type = (int)y;
      t.subgrid = (int)x;
      t.done_events = 0;
      t.ids.clear();
      ++stats[y == TASKTYPE_PHOTON_TRAVERSAL ? "traversal_tasks"
                                             : "reemit_tasks"];
      const int me = current_fiber();
      if (y == TASKTYPE_PHOTON_TRAVERSAL && b != nullptr) {
        dep_locks.insert((const void *)((SG *)b)->get_dependency());
        const int holder = lock_holder(((SG *)b)->get_dependency());
        ++stats["subgrid_lock_checks"];
        if (holder != me) {
          fail("lock-not-held",
               sfmt("traversal task on subgrid %ld started on thread %d "
                    "without holding the lock of that subgrid (holder: %d)",
                    x, me, holder));
          break;
        }
      }
      if (buf.size() == 0)
        ++stats["tasks_with_empty_input_buffer"];
      if (buf.size() > PHOTONBUFFER_SIZE) {
        fail("buffer-overflow", sfmt("task input buffer holds %u packets",
                                     (unsigned)buf.size()));
        break;
      }
      for (uint_fast32_t i = 0; i < buf.size() && !failed; ++i) {
        const uint64_t id = buf[i].get_verif_id();
        Packet *pk = lookup(id);
        if (!pk) {
          fail("unknown-packet",
               sfmt("task on subgrid %d found packet id %llu that was never "
                    "launched in this iteration",
                    t.subgrid, (unsigned long long)id));
          break;
        }
        if (pk->state != LIVE) {
          fail("packet-after-termination",
               sfmt("packet %llu is processed again after it was terminated",
                    (unsigned long long)id));
          break;
        }
        if (pk->in_task >= 0) {
          fail("packet-duplicated",
               sfmt("packet %llu is in the input buffers of two running tasks "
                    "(threads %d and %d)",
                    (unsigned long long)id, pk->in_task, me));
          break;
        }
        pk->in_task = me;
        t.ids.push_back(id);
        if (getenv("EION_DEBUG_ID") &&
            (uint64_t)atol(getenv("EION_DEBUG_ID")) == id) {
          double bx[6];
          (*creator->get_subgrid((size_t)x)).get_grid_box(bx);
          fprintf(stderr,
                  "  sys: task type %d on subgrid %ld (original %d) box lo "
                  "(cells) %.3f %.3f %.3f, buffer dir %d, packet pos (cells) "
                  "%.15f %.15f %.15f dir %.3f %.3f %.3f tau %.17g\n",
                  t.type, x, original_of[(size_t)x],
                  (bx[0] - lay.cfg.anchor[0]) / lay.cell[0],
                  (bx[1] - lay.cfg.anchor[1]) / lay.cell[1],
                  (bx[2] - lay.cfg.anchor[2]) / lay.cell[2],
                  (int)buf.get_direction(),
                  (buf[i].get_position()[0] - lay.cfg.anchor[0]) / lay.cell[0],
                  (buf[i].get_position()[1] - lay.cfg.anchor[1]) / lay.cell[1],
                  (buf[i].get_position()[2] - lay.cfg.anchor[2]) / lay.cell[2],
                  buf[i].get_direction()[0], buf[i].get_direction()[1],
                  buf[i].get_direction()[2],
                  buf[i].get_target_optical_depth());
        }
        // hand-over invariant
        if (check_handover && t.type == TASKTYPE_PHOTON_TRAVERSAL &&
            buf.get_direction() != TRAVELDIRECTION_INSIDE)
          check_entry(*pk, id, buf, (size_t)x, buf[i]);
        else if (t.type == TASKTYPE_PHOTON_TRAVERSAL && pk->out_dir > 0)
          fail("handover", sfmt("packet %llu left a subgrid through direction "
                                "%d but arrives flagged as 'inside'",
                                (unsigned long long)id, pk->out_dir));
      }
      break;
    }
    case CMI_VERIF_EVENT_PACKET_OUT: {
      const PhotonPacket &p = *(const PhotonPacket *)a;
      Packet *pk = lookup(p.get_verif_id());
      if (!pk || pk->state != LIVE || pk->in_task != current_fiber()) {
        fail("unknown-packet",
             sfmt("packet id %llu stored for hand-over is not a live packet "
                  "of the running task",
                  (unsigned long long)p.get_verif_id()));
        break;
      }
      pk->out_dir = (int)x;
      pk->out_sub = task_of_fiber().subgrid;
      if (getenv("EION_DEBUG_HOPS") && pk->hops > 5000 && pk->hops < 5012)
        fprintf(stderr,
                "hop %ld of packet %llu: leaves subgrid %d through direction "
                "%d at %.17g %.17g %.17g dir %.17g %.17g %.17g tau %.17g\n",
                (long)pk->hops, (unsigned long long)p.get_verif_id(),
                pk->out_sub, pk->out_dir, p.get_position()[0],
                p.get_position()[1], p.get_position()[2], p.get_direction()[0],
                p.get_direction()[1], p.get_direction()[2],
                p.get_target_optical_depth());
      // a packet that is handed on again and again without moving and
      // without using up optical depth is caught in a cycle of subgrids (each
      // one finds it outside and passes it on): it will never terminate
      {
        const CoordinateVector<> pos = p.get_position();
        if (pk->hops > 0 && pos[0] == pk->last_out[0] &&
            pos[1] == pk->last_out[1] && pos[2] == pk->last_out[2] &&
            p.get_target_optical_depth() == pk->last_out[3]) {
          if (++pk->still_hops > 64) {
            fail("packet-never-ends",
                 sfmt("packet %llu has been handed from subgrid to subgrid "
                      "%ld times in a row without moving (position %.17g "
                      "%.17g %.17g, direction %.6f %.6f %.6f, last subgrids "
                      "%d -> direction %d): it never terminates",
                      (unsigned long long)p.get_verif_id(),
                      (long)pk->still_hops, pos[0], pos[1], pos[2],
                      p.get_direction()[0], p.get_direction()[1],
                      p.get_direction()[2], pk->out_sub, pk->out_dir));
            break;
          }
        } else {
          pk->still_hops = 0;
        }
        pk->last_out[0] = pos[0];
        pk->last_out[1] = pos[1];
        pk->last_out[2] = pos[2];
        pk->last_out[3] = p.get_target_optical_depth();
      }
      if (++pk->hops > 20000000)
        fail("packet-never-ends",
             sfmt("packet %llu was handed over more than 2e7 times",
                  (unsigned long long)p.get_verif_id()));
      for (int k = 0; k < 3; ++k)
        pk->out_pos[k] = p.get_position()[k];
      if (x >= 0 && x < TRAVELDIRECTION_NUMBER)
        ++exit_class_hist[x];
      if (x == TRAVELDIRECTION_INSIDE) {
        // absorbed, kept for re-emission: this segment ends here
        end_segment(*pk, p, 0);
      }
      break;
    }
    case CMI_VERIF_EVENT_PACKET_DONE: {
      const PhotonPacket &p = *(const PhotonPacket *)a;
      const uint64_t id = p.get_verif_id();
      Packet *pk = lookup(id);
      if (!pk) {
        fail("unknown-packet", sfmt("packet id %llu terminated but never "
                                    "launched in this iteration",
                                    (unsigned long long)id));
        break;
      }
      if (pk->state == DONE) {
        fail("terminated-twice", sfmt("packet %llu terminated twice",
                                      (unsigned long long)id));
        break;
      }
      if (pk->in_task != current_fiber()) {
        fail("unknown-packet",
             sfmt("packet %llu terminated by a task that does not own it",
                  (unsigned long long)id));
        break;
      }
      pk->state = DONE;
      ++done;
      ++done_total;
      ++task_of_fiber().done_events;
      if (x == -1) {
        ++stats["done_not_reemitted"];
      } else if (x == 0) {
        ++stats["done_absorbed"];
        end_segment(*pk, p, 0);
        if (lay.cfg.diffuse != 0)
          fail("termination-cause",
               sfmt("packet %llu absorbed and dropped although re-emission is "
                    "enabled",
                    (unsigned long long)id));
      } else {
        ++stats["done_escaped"];
        if (x > 0 && x < TRAVELDIRECTION_NUMBER)
          ++exit_class_hist[x];
        end_segment(*pk, p, 1);
        // escape only through an element whose neighbour is outside
        int s[3];
        signs_from_dir((int)x, s);
        const int sub = task_of_fiber().subgrid;
        if (sub >= 0 && (size_t)sub < original_of.size() &&
            lay.neighbour(original_of[(size_t)sub], s) >= 0)
          fail("termination-cause",
               sfmt("packet %llu escaped from subgrid %d through direction %ld "
                    "although a neighbour exists there",
                    (unsigned long long)id, sub, x));
      }
      break;
    }
    case CMI_VERIF_EVENT_PACKET_REEMIT: {
      PhotonPacket &p = *(PhotonPacket *)a;
      const uint64_t id = p.get_verif_id();
      Packet *pk = lookup(id);
      if (!pk || pk->state != LIVE || pk->in_task != current_fiber()) {
        fail("unknown-packet", sfmt("re-emitted packet id %llu is not a live "
                                    "packet of the running task",
                                    (unsigned long long)id));
        break;
      }
      ++stats["reemitted"];
      pk->out_dir = 0;
      begin_segment(*pk, p, id);
      break;
    }
    case CMI_VERIF_EVENT_TASK_END: {
      CurTask &t = task_of_fiber();
      if (!t.active) {
        fail("task-nesting", "task end without task begin");
        break;
      }
      if (t.done_events != x)
        fail("done-count",
             sfmt("task on subgrid %d added %ld to the terminated-packet "
                  "counter but terminated %ld packets",
                  t.subgrid, x, t.done_events));
      for (uint64_t id : t.ids) {
        Packet *pk = lookup(id);
        if (pk)
          pk->in_task = -1;
      }
      t.active = false;
      break;
    }
    case CMI_VERIF_EVENT_ITERATION_END: {
      const void *const *rec = (const void *const *)a;
      persistent_tasks = b ? (long)*(const size_t *)b : -1;
      iteration_end_checks(rec, (int)x, y);
      if (!failed && on_iteration_end)
        on_iteration_end(*this, (int)x, rec);
      break;
    }
    default:
      break;
    }
  }

  void check_entry(Packet &pk, uint64_t id, PhotonBuffer &buf, size_t igrid,
                   const PhotonPacket &p) {
    if (pk.out_dir <= 0) {
      fail("handover",
           sfmt("packet %llu arrives in subgrid %zu through direction %d but "
                "never left a subgrid",
                (unsigned long long)id, igrid, (int)buf.get_direction()));
      return;
    }
    int s[3];
    signs_from_dir(pk.out_dir, s);
    const int want_in = dir_from_signs(-s[0], -s[1], -s[2]);
    if (buf.get_direction() != want_in) {
      fail("handover",
           sfmt("packet %llu left subgrid %d through direction %d but enters "
                "subgrid %zu through direction %d (opposite element is %d)",
                (unsigned long long)id, pk.out_sub, pk.out_dir, igrid,
                (int)buf.get_direction(), want_in));
      return;
    }
    if (igrid >= original_of.size() || pk.out_sub < 0 ||
        (size_t)pk.out_sub >= original_of.size()) {
      fail("handover", "subgrid index out of range in hand-over");
      return;
    }
    const int want_sub = lay.neighbour(original_of[(size_t)pk.out_sub], s);
    if (original_of[igrid] != want_sub) {
      fail("handover",
           sfmt("packet %llu left subgrid %d (original %d) through direction "
                "%d and was delivered to subgrid %zu (original %d); the "
                "geometric neighbour is %d",
                (unsigned long long)id, pk.out_sub,
                original_of[(size_t)pk.out_sub], pk.out_dir, igrid,
                original_of[igrid], want_sub));
      return;
    }
    // same physical position, on the entry element of the receiver
    double box[6];
    (*creator->get_subgrid(igrid)).get_grid_box(box);
    for (int k = 0; k < 3; ++k) {
      if (p.get_position()[k] != pk.out_pos[k]) {
        fail("handover", sfmt("packet %llu changed position between leaving "
                              "and entering",
                              (unsigned long long)id));
        return;
      }
      const double tol = 1e-9 * lay.cell[k];
      double rel = p.get_position()[k] - box[k];
      if (s[k] == 0) {
        if (rel < -tol || rel > box[3 + k] + tol) {
          fail("handover",
               sfmt("packet %llu enters subgrid %zu at coordinate %d = %.17g "
                    "outside [%.17g, %.17g]",
                    (unsigned long long)id, igrid, k, p.get_position()[k],
                    box[k], box[k] + box[3 + k]));
          return;
        }
      } else {
        const double expect = s[k] > 0 ? 0. : box[3 + k];
        double d = rel - expect;
        if (lay.cfg.periodic[k]) {
          const double L = lay.cfg.sides[k];
          d -= L * std::round(d / L);
        }
        if (std::fabs(d) > tol) {
          fail("handover",
               sfmt("packet %llu enters subgrid %zu through direction %d at "
                    "coordinate %d = %.17g, which is %.3g cell sizes away from "
                    "the entry boundary",
                    (unsigned long long)id, igrid, (int)buf.get_direction(), k,
                    p.get_position()[k], d / lay.cell[k]));
          return;
        }
      }
    }
    ++stats["handovers_checked"];
  }

  void iteration_end_checks(const void *const *rec, int iloop, long nphot) {
    MemorySpace *buffers = (MemorySpace *)rec[0];
    ThreadSafeVector< Task > *tasks = (ThreadSafeVector< Task > *)rec[1];
    std::vector< TaskQueue * > *queues = (std::vector< TaskQueue * > *)rec[2];
    TaskQueue *shared = (TaskQueue *)rec[3];
    AtomicValue< uint_fast32_t > *num_done =
        (AtomicValue< uint_fast32_t > *)rec[5];
    std::vector< std::vector< PhotonBuffer > > *cont =
        (std::vector< std::vector< PhotonBuffer > > *)rec[6];
    ++stats["iterations"];
    max_buffers_in_use = std::max(max_buffers_in_use,
                                  (long)buffers->get_max_number_elements());
    max_tasks_in_use =
        std::max(max_tasks_in_use, (long)tasks->get_max_number_taken());
    total_buffers_taken = std::max(total_buffers_taken,
                                   (long)buffers->get_total_number_elements());
    total_buffers_taken = std::max(total_buffers_taken, buffers_taken_seen);
    buffers_taken_seen = 0;
    if (launched != nphot)
      fail("launch-count", sfmt("iteration %d: %ld packets requested, %ld "
                                "launched",
                                iloop, nphot, launched));
    else if (done != nphot) {
      long live = 0;
      for (auto &p : packets)
        if (p.state == LIVE)
          ++live;
      fail("not-all-terminated",
           sfmt("iteration %d ended with %ld of %ld packets terminated (%ld "
                "still alive)",
                iloop, done, nphot, live));
    } else if ((long)num_done->value() != nphot)
      fail("done-count", sfmt("iteration %d: terminated-packet counter is %ld, "
                              "requested %ld",
                              iloop, (long)num_done->value(), nphot));
    if (failed)
      return;
    for (auto &t : cur)
      if (t.active) {
        fail("task-nesting", "iteration ended while a task was in progress");
        return;
      }
    if (buffers->get_number_of_active_buffers() != 0)
      fail("leftover", sfmt("iteration %d ended with %zu photon buffers still "
                            "in use",
                            iloop, buffers->get_number_of_active_buffers()));
    else if (!lay.cfg.task_plot &&
             tasks->get_number_of_active_elements() !=
                 (persistent_tasks < 0
                      ? 0
                      : (size_t)(persistent_tasks +
                                 (long)iloop * lay.norig()))) {
      Task *act[8];
      const size_t na = tasks->get_active_elements(8, act);
      std::string types;
      for (size_t k = 0; k < na; ++k)
        types += sfmt(" type %d (subgrid/block %zu)", (int)act[k]->get_type(),
                      act[k]->get_subgrid());
      fail("leftover",
           sfmt("iteration %d ended with %zu tasks still in use:%s; shared "
                "queue holds %zu entries",
                iloop, tasks->get_number_of_active_elements(), types.c_str(),
                shared->size()));
    }
    else if (shared->size() != 0)
      fail("leftover", sfmt("iteration %d ended with %zu entries in the shared "
                            "queue",
                            iloop, shared->size()));
    for (size_t q = 0; q < queues->size() && !failed; ++q)
      if ((*queues)[q]->size() != 0)
        fail("leftover", sfmt("iteration %d ended with %zu entries in the "
                              "queue of thread %zu",
                              iloop, (*queues)[q]->size(), q));
    for (size_t c = 0; c < creator->number_of_actual_subgrids() && !failed;
         ++c) {
      DensitySubGrid &g = *creator->get_subgrid(c);
      for (int d = 0; d < TRAVELDIRECTION_NUMBER; ++d)
        if (g.get_active_buffer(d) != NEIGHBOUR_OUTSIDE) {
          fail("leftover", sfmt("iteration %d ended with subgrid %zu still "
                                "owning an outgoing buffer for direction %d",
                                iloop, c, d));
          break;
        }
    }
    for (size_t i = 0; cont && i < cont->size() && !failed; ++i)
      for (size_t k = 0; k < (*cont)[i].size(); ++k)
        if ((*cont)[i][k].size() != 0) {
          fail("leftover", sfmt("iteration %d ended with %u packets in a "
                                "continuous-source buffer",
                                iloop, (unsigned)(*cont)[i][k].size()));
          break;
        }
  }
};

typedef LedgerT< DensitySubGrid > Ledger;

} // namespace ion

#endif
