// E-TL: the integer time line driven by generated request histories with
// save/restore faults (dump through the real RestartWriter, continue from a
// TimeLine built by the real RestartReader; also restore from a stale dump and
// replay). Decides C19 against an exact integer reference model.
#include "../detsim/driver.hpp"

#include "TimeLine.hpp"

#include <cmath>
#include <cstdarg>
#include <memory>
#include <unistd.h>

using namespace detsim;

namespace {

std::string sfmt(const char *f, ...) {
  char buf[1024];
  va_list ap;
  va_start(ap, f);
  vsnprintf(buf, sizeof buf, f, ap);
  va_end(ap);
  return buf;
}

const uint64_t TOP = 0x8000000000000000ull;

// exact integer reference model of the time line
struct RefTimeLine {
  double A, B;
  uint64_t min_int, max_int, cur;

  // largest k with A * 2^k <= x (A > 0, x > 0), computed from exponents
  static long max_pow(double A, double x) {
    int ea, ex;
    const double ma = std::frexp(A, &ea), mx = std::frexp(x, &ex);
    return mx >= ma ? (long)ex - ea : (long)ex - ea - 1;
  }

  RefTimeLine(double start, double end, double mn, double mx) {
    A = (end - start) / 9223372036854775808.0;
    B = start;
    if (mn > 0) {
      long k = max_pow(A, mn);
      min_int = k < 0 ? 1 : (k >= 63 ? TOP : (1ull << k));
    } else
      min_int = 1;
    max_int = TOP;
    if (mx > 0) {
      long k = max_pow(A, mx);
      max_int = k < 0 ? 0 : (k >= 63 ? TOP : (1ull << k));
      if (max_int < min_int)
        max_int = min_int;
    }
    cur = 0;
  }

  // returns the expected integer step, 0 if the call must refuse; sets moved
  uint64_t expect(double req, bool &moved, bool &hasnext, int &reason) {
    moved = false;
    uint64_t p1 = 0;
    if (req > 0 && !std::isnan(req)) {
      long k = max_pow(A, req);
      if (k >= 0) {
        p1 = k >= 63 ? TOP : (1ull << k);
        if (p1 > max_int)
          p1 = max_int;
      }
    } else if (std::isnan(req)) {
      p1 = max_int; // comparison with NaN is false: the maximum is taken
    }
    if (p1 == 0) {
      hasnext = false;
      reason = 1;
      return 0;
    }
    const uint64_t left = TOP - cur;
    const uint64_t p2 = left & (~left + 1); // largest power of two dividing left
    uint64_t p = p1 < p2 ? p1 : p2;
    if (left == 0)
      p = p1; // x % p == 0 for x == 0: the code would step beyond the end
    if (p < min_int) {
      hasnext = false;
      reason = 2;
      return p;
    }
    cur += p;
    moved = true;
    hasnext = cur < TOP;
    reason = 0;
    return p;
  }
};

class ETLEngine : public Engine {
public:
  std::string property() const { return "C19"; }
  void budget(const std::string &tier, uint64_t &runs, double &seconds) const {
    if (tier == "quick") {
      runs = 300000;
      seconds = 45;
    } else {
      runs = 30000000;
      seconds = 900;
    }
  }
  std::string sched_key() const { return ""; }
  int watchdog_seconds() const { return 60; }
  void setup() {
    std::string d = scratch_dir();
    if (chdir(d.c_str())) {
    }
  }

  Json generate(uint64_t run_seed, const std::string &tier, uint64_t index) {
    Rng r(run_seed);
    Json c = Json::object();
    double start = 0.;
    if (r.chance(0.3))
      start = (r.chance(0.5) ? 1. : -1.) * std::pow(10., r.uniform(-3., 16.));
    double interval = std::pow(10., r.uniform(-6., 17.)) *
                      (r.chance(0.3) ? 1. : r.uniform(0.5, 1.5));
    if (start != 0.) // keep the interval resolvable next to the start time
      interval = std::fabs(start) * std::pow(10., r.uniform(-10., 3.));
    const double end = start + interval;
    double mn = 0., mx = 0.;
    if (r.chance(0.5))
      mn = (end - start) * std::pow(2., -r.uniform(5., 60.));
    if (r.chance(0.5))
      mx = (end - start) * std::pow(2., -r.uniform(0., 12.));
    if (mx > 0 && mn > mx)
      mn = mx / 4.;
    // limits that are exact power-of-two fractions of the interval sit on
    // the boundary of the rounding loops of the constructor
    const bool exact_limits = r.chance(0.3);
    if (exact_limits) {
      if (mn > 0)
        mn = (end - start) * std::ldexp(1., -(int)r.range(3, 40));
      if (mx > 0)
        mx = (end - start) * std::ldexp(1., -(int)r.range(0, 12));
      if (mx > 0 && mn > mx)
        mn = mx / 4.;
    }
    c["start"] = dbl_bits(start);
    c["end"] = dbl_bits(end);
    c["min"] = dbl_bits(mn);
    c["max"] = dbl_bits(mx);
    // (mode 6: requests around the configured minimum)
    const int mode = (int)r.below(mn > 0 ? 7 : 6);
    const int n = (int)r.range(1, tier == "quick" ? 150 : 600);
    Json reqs = Json::array();
    double base = (end - start) * std::pow(2., -r.uniform(0., 10.));
    for (int i = 0; i < n; ++i) {
      double q = base;
      switch (mode) {
      case 0: // constant
        break;
      case 1: // growing
        base *= 1. + r.uniform(0., 0.5);
        break;
      case 2: // shrinking
        base *= 1. - r.uniform(0., 0.3);
        break;
      case 3: // wildly varying over 30 decades
        q = (end - start) * std::pow(10., -r.uniform(0., 30.));
        break;
      case 4: // CFL-like: slowly varying with jitter
        base *= std::exp(r.uniform(-0.1, 0.1));
        q = base * r.uniform(0.8, 1.2);
        break;
      case 6: // around the minimum: just below, at, just above it
        q = mn * (r.chance(0.2) ? 1. : r.uniform(0.3, 3.));
        if (r.chance(0.7))
          q = (end - start) * std::pow(2., -r.uniform(0., 10.));
        break;
      default: // large steps: ends quickly, exact powers of two and neighbours
        q = (end - start) * std::ldexp(1., -(int)r.range(0, 6));
        if (r.chance(0.3))
          q = std::nextafter(q, r.chance(0.5) ? 0. : 2. * q);
      }
      reqs.push(dbl_bits(q));
    }
    c["requests"] = reqs;
    // faults: save/restore at seeded positions
    Json faults = Json::array();
    const int nf = r.chance(0.7) ? (int)r.range(1, 5) : 0;
    for (int i = 0; i < nf; ++i) {
      Json f = Json::object();
      f["at"] = (long long)r.below((uint64_t)n);
      f["kind"] = r.chance(0.7) ? "restore" : "stale";
      f["back"] = (long long)r.range(1, 10);
      faults.push(f);
    }
    c["faults"] = faults;
    return c;
  }

  Outcome execute(const Json &c) {
    Outcome out;
    const double start = bits_dbl(c.at("start").as_string());
    const double end = bits_dbl(c.at("end").as_string());
    const double mn = bits_dbl(c.at("min").as_string());
    const double mx = bits_dbl(c.at("max").as_string());
    std::vector< double > reqs;
    for (auto &e : c.at("requests").a)
      reqs.push_back(bits_dbl(e.as_string()));
    std::map< size_t, std::pair< std::string, long > > faults;
    for (auto &f : c.at("faults").a)
      faults[(size_t)f.at("at").as_int()] =
          std::make_pair(f.at("kind").as_string(), (long)f.at("back").as_int());

    std::unique_ptr< TimeLine > tl(new TimeLine(start, end, mn, mx, nullptr));
    RefTimeLine ref(start, end, mn, mx);
    const double A = ref.A;
    uint64_t hash = FNV_INIT;
    std::string vclass, message;
    auto fail = [&](const std::string &cl, const std::string &m) {
      if (vclass.empty()) {
        vclass = cl;
        message = m;
      }
    };
    long long steps = 0, nfaults = 0, stale = 0, refused = 0, ulp_notes = 0;
    double last_time = start;
    bool ended = false;
    // history for stale restores: dump file index -> (request index, ref state)
    std::vector< std::pair< size_t, uint64_t > > dumps;
    const std::string dir = scratch_dir();
    size_t i = 0;
    long guard = 0;
    while (i < reqs.size() && vclass.empty() && !ended && ++guard < 100000) {
      // fault before request i?
      auto fit = faults.find(i);
      if (fit != faults.end()) {
        const std::string kind = fit->second.first;
        const long back = fit->second.second;
        faults.erase(fit);
        ++nfaults;
        // save
        const std::string fn = dir + sfmt("/tl_%zu.dump", dumps.size());
        {
          RestartWriter w(fn);
          tl->write_restart_file(w);
        }
        dumps.push_back(std::make_pair(i, ref.cur));
        size_t from = dumps.size() - 1;
        if (kind == "stale" && dumps.size() > 1) {
          from = dumps.size() - 1 - (size_t)std::min< long >(back, (long)dumps.size() - 1);
          ++stale;
        }
        {
          RestartReader rd(dir + sfmt("/tl_%zu.dump", from));
          tl.reset(new TimeLine(rd));
        }
        // write again: bytes must be identical
        {
          const std::string fn2 = dir + "/tl_again.dump";
          {
            RestartWriter w(fn2);
            tl->write_restart_file(w);
          }
          std::ifstream a(dir + sfmt("/tl_%zu.dump", from), std::ios::binary),
              b(fn2, std::ios::binary);
          std::string sa((std::istreambuf_iterator< char >(a)),
                         std::istreambuf_iterator< char >()),
              sb((std::istreambuf_iterator< char >(b)),
                 std::istreambuf_iterator< char >());
          if (sa != sb || sa.size() != 40)
            fail("restart-bytes",
                 sfmt("time line dump read back and written again differs "
                      "(%zu vs %zu bytes)",
                      sa.size(), sb.size()));
        }
        if (from != dumps.size() - 1) {
          // stale: go back in the request history as well
          i = dumps[from].first;
          ref.cur = dumps[from].second;
          last_time = A * (double)ref.cur + start;
        }
        continue;
      }
      const double req = reqs[i];
      double actual = -1., now = -1.;
      const uint64_t before = ref.cur;
      const bool hasnext = tl->advance(req, actual, now);
      bool moved, ref_next;
      int reason;
      const uint64_t p = ref.expect(req, moved, ref_next, reason);
      hash = fnv1a(hash, (uint64_t)hasnext);
      hash = fnv1a_bytes(hash, &actual, 8);
      hash = fnv1a_bytes(hash, &now, 8);
      ++steps;
      const char *ctx = "";
      if (hasnext != ref_next)
        fail("has-next",
             sfmt("step %zu: request %.17g at integer time %llu: advance "
                  "returned %s, reference %s (reason %d)",
                  i, req, (unsigned long long)before,
                  hasnext ? "true" : "false", ref_next ? "true" : "false",
                  reason));
      // observed integer step
      const double pobs = actual / A;
      if (!(pobs == (double)p))
        fail("step-size",
             sfmt("step %zu: request %.17g at integer time %llu: actual step "
                  "%.17g = %.17g integer units, reference %llu",
                  i, req, (unsigned long long)before, actual, pobs,
                  (unsigned long long)p));
      if (moved) {
        if (!(actual <= req) && !std::isnan(req))
          fail("overshoot-request", sfmt("step %zu: actual step %.17g larger "
                                         "than requested %.17g",
                                         i, actual, req));
        if (mx > 0 && mn <= mx && !(actual <= mx))
          fail("overshoot-maximum", sfmt("step %zu: actual step %.17g larger "
                                         "than the configured maximum %.17g",
                                         i, actual, mx));
        if ((p & (p - 1)) != 0 || p == 0 || (TOP - before) % p != 0)
          fail("not-power-of-two",
               sfmt("step %zu: integer step %llu is not a power of two "
                    "dividing the remaining %llu",
                    i, (unsigned long long)p,
                    (unsigned long long)(TOP - before)));
        if (ref.cur > TOP)
          fail("beyond-end", sfmt("step %zu: integer time %llu beyond the end",
                                  i, (unsigned long long)ref.cur));
      } else {
        ++refused;
      }
      const double expect_now = A * (double)ref.cur + start;
      if (!(now == expect_now))
        fail("current-time",
             sfmt("step %zu: current time %.17g, reference %.17g (integer "
                  "time %llu)%s",
                  i, now, expect_now, (unsigned long long)ref.cur, ctx));
      if (!(now >= last_time))
        fail("time-backwards", sfmt("step %zu: time went from %.17g to %.17g",
                                    i, last_time, now));
      if (start == 0.) {
        if (!(now <= end))
          fail("beyond-end", sfmt("step %zu: time %.17g beyond end %.17g", i,
                                  now, end));
      } else if (!(now <= std::nextafter(end, INFINITY)))
        fail("beyond-end", sfmt("step %zu: time %.17g beyond end %.17g", i, now,
                                end));
      last_time = now;
      if (!hasnext) {
        ended = true;
        if (moved && ref.cur == TOP) {
          // landed on the end: exactly, in the integer domain; in physical
          // time exactly when start == 0
          if (start == 0. && now != end)
            fail("end-time", sfmt("final time %.17g differs from the end time "
                                  "%.17g",
                                  now, end));
          if (start != 0. && now != end)
            ++ulp_notes;
        }
      }
      ++i;
    }
    if (vclass.empty() && ended && ref.cur > TOP)
      fail("beyond-end", "integer time beyond 2^63");
    out.vclass = vclass;
    out.message = message;
    out.hash = hash;
    out.nontrivial = nfaults > 0 && steps > 1;
    Json st = Json::object();
    st["advance_calls"] = steps;
    st["save_restore_faults"] = nfaults;
    st["stale_restores"] = stale;
    st["refused_steps"] = refused;
    st["runs_reaching_end"] = (ended && ref.cur == TOP) ? 1 : 0;
    st["end_time_one_ulp_notes_start_nonzero"] = ulp_notes;
    out.stats = st;
    out.signature = Json::object();
    return out;
  }

  std::vector< Json > shrink(const Json &c) {
    std::vector< Json > v;
    const Json &reqs = c.at("requests");
    const size_t n = reqs.a.size();
    for (size_t chunk = n / 2; chunk >= 1; chunk /= 2) {
      for (size_t s = 0; s + chunk <= n; s += chunk) {
        Json m = c;
        Json q = Json::array();
        for (size_t k = 0; k < n; ++k)
          if (k < s || k >= s + chunk)
            q.push(reqs.a[k]);
        m["requests"] = q;
        v.push_back(m);
      }
      if (chunk == 1)
        break;
    }
    if (c.at("faults").a.size() > 0) {
      for (size_t k = 0; k < c.at("faults").a.size(); ++k) {
        Json m = c;
        m["faults"].a.erase(m["faults"].a.begin() + (long)k);
        v.push_back(m);
      }
    }
    return v;
  }

  void describe(Json &cov, Json &assumptions) const {
    cov["rule"] =
        "each run = one generated (start, end, minimum, maximum) setting and "
        "a history of up to 600 requested steps (constant, growing, "
        "shrinking, CFL-like, exact powers of two and their floating-point "
        "neighbours, wildly varying over 30 decades) with save/restore faults "
        "at seeded positions (real RestartWriter/RestartReader; also restore "
        "from a stale dump and replay the same requests); every advance() is "
        "compared with an exact integer reference model. distinct = distinct "
        "hash of the (actual, time, has-next) history; non-trivial = >=1 "
        "save/restore fault and >=2 steps";
    Json comp = Json::object();
    comp["real"] = "TimeLine, RestartWriter, RestartReader (files on disk)";
    comp["stub"] = "none";
    cov["components"] = comp;
    cov["fault_kinds"] = "save+restore between two steps; restore from a "
                         "stale dump followed by replay of the requests";
    assumptions.push("exactness (power of two, divides the remainder, sum = "
                     "2^63, has-next) is evaluated in the integer domain; the "
                     "physical end time is required bit-exactly only for "
                     "start == 0 (the value both drivers use), for start != 0 "
                     "a one-ulp difference is counted as a note");
  }
};

} // namespace

int main(int argc, char **argv) {
  ETLEngine e;
  return check_main(argc, argv, e);
}
