// E-RHD: whole TaskBasedRadiationHydrodynamicsSimulation::do_simulation runs
// under the simulator. Serves C07 (task graph), C10 (layout / thread
// independence against a sequential reference), C04 (conservation), selected
// by VERIF_PROPERTY.
#include "rhd_model.hpp"
#include "ion_model.hpp"

#include "CommandLineParser.hpp"
#include "TaskBasedRadiationHydrodynamicsSimulation.hpp"
#include "Timer.hpp"

#include "ParameterFile.hpp"
#include "PhotonSourceDistributionFactory.hpp"
#include "../detsim/fsim.hpp"
#include <sys/time.h>
#include <sys/wait.h>
#include <sys/syscall.h>
#include <sstream>
#include <unistd.h>
#include <dirent.h>
#include "AlveliusTurbulenceForcing.hpp"
#include "HydroMaskFactory.hpp"
#include "LiveOutputManager.hpp"
#include "TimeLine.hpp"

#include <csignal>
#include <sys/stat.h>
#include <unistd.h>

using namespace detsim;
using namespace rhd;

namespace {

const char *C07_CLASSES[] = {"task-twice",     "task-missing", "dependency-order",
                             "overlap",        "lock-not-held", "leftover-tasks",
                             "task-table",     "nontermination", nullptr};
const char *C10_CLASSES[] = {"layout-dependence", "not-reproducible", nullptr};
const char *C09_CLASSES[] = {"restart-divergence", "dump-differs",
                             "roundtrip-bytes", "restart-failed",
                             "stop-not-honoured", nullptr};
const char *C12_CLASSES[] = {"crash", "abort", "sanitizer", "hang", "bad-exit",
                             "missing-output", "memcheck", nullptr};
const char *C01_CLASSES[] = {"launch-count", "not-all-terminated", "done-count",
                             "leftover", "terminated-twice", "unknown-packet",
                             "packet-duplicated", "packet-after-termination",
                             "termination-cause", "task-nesting", "launch",
                             "buffer-overflow", "nontermination",
                             "packet-never-ends", "lock-not-held",
                             "source-buffer-shared", nullptr};
const char *C04_CLASSES[] = {"mass-not-conserved", "momentum-not-conserved",
                             "energy-not-conserved", "unphysical-state",
                             nullptr};

bool in_list(const char **list, const std::string &s) {
  for (int k = 0; list[k]; ++k)
    if (s == list[k])
      return true;
  return false;
}

// run do_simulation with the given extra command line arguments
int run_rhd(const std::string &paramfile, int threads,
            const std::vector< std::string > &extra) {
  CommandLineParser parser("CMacIonize");
  parser.add_required_option< std::string >("params", 'p', "parameter file");
  parser.add_option("threads", 't', "threads", COMMANDLINEOPTION_INTARGUMENT,
                    "1");
  parser.add_option("dry-run", 'n', "dry run", COMMANDLINEOPTION_NOARGUMENT,
                    "false");
  TaskBasedRadiationHydrodynamicsSimulation::add_command_line_parameters(
      parser);
  std::vector< std::string > args;
  args.push_back("CMacIonize");
  args.push_back("--params");
  args.push_back(paramfile);
  args.push_back("--threads");
  args.push_back(std::to_string(threads));
  for (auto &e : extra)
    args.push_back(e);
  std::vector< char * > argv;
  for (auto &a : args)
    argv.push_back(&a[0]);
  parser.parse_arguments((int)argv.size(), argv.data());
  Timer programtimer;
  return TaskBasedRadiationHydrodynamicsSimulation::do_simulation(
      parser, true, programtimer, nullptr);
}

std::string slurp(const std::string &path) {
  std::ifstream f(path, std::ios::binary);
  return std::string((std::istreambuf_iterator< char >(f)),
                     std::istreambuf_iterator< char >());
}
void copy_file(const std::string &from, const std::string &to) {
  std::ofstream o(to, std::ios::binary | std::ios::trunc);
  o << slurp(from);
}

// read a task-based RHD dump through the same sequence of restart
// constructors do_simulation uses and write it out again with the
// write_restart_file members; returns the bytes written
std::string roundtrip_dump(const std::string &in, const std::string &out,
                           const Cfg &c) {
  {
    RestartReader rd(in);
    Timer t1(rd), t2(rd), t3(rd), t4(rd);
    ParameterFile params(rd);
    HydroMask *mask = c.mask ? HydroMaskFactory::restart(rd, nullptr) : nullptr;
    const uint_fast32_t lastsnap = rd.read< uint_fast32_t >();
    const uint_fast32_t lastrad = rd.read< uint_fast32_t >();
    const int_fast32_t seed = rd.read< int_fast32_t >();
    DensitySubGridCreator< HydroDensitySubGrid > grid(rd);
    AlveliusTurbulenceForcing *turb =
        c.turbulence ? new AlveliusTurbulenceForcing(rd) : nullptr;
    PhotonSourceDistribution *src =
        PhotonSourceDistributionFactory::restart(rd, nullptr);
    LiveOutputManager live(grid.get_subgrid_layout(),
                           grid.get_subgrid_cell_layout(), params);
    live.read_restart_info(rd);
    TimeLine tl(rd);
    const uint_fast32_t num_step = rd.read< uint_fast32_t >();
    const double requested = rd.read< double >();
    const bool has_next = rd.read< bool >();
    const double actual = rd.read< double >();
    const double now = rd.read< double >();
    RestartWriter w(out);
    t1.write_restart_file(w);
    t2.write_restart_file(w);
    t3.write_restart_file(w);
    t4.write_restart_file(w);
    params.write_restart_file(w);
    if (mask)
      HydroMaskFactory::write_restart_file(w, *mask);
    w.write(lastsnap);
    w.write(lastrad);
    w.write(seed);
    grid.write_restart_file(w);
    if (turb)
      turb->write_restart_file(w);
    PhotonSourceDistributionFactory::write_restart_file(w, *src);
    live.write_restart_info(w);
    tl.write_restart_file(w);
    w.write(num_step);
    w.write(requested);
    w.write(has_next);
    w.write(actual);
    w.write(now);
    delete src;
    delete turb;
    delete mask;
  }
  return slurp(out);
}

// first and last byte at which two dumps differ outside the leading timer
// block (first > last: identical; first == (size_t)-1: different sizes)
void dump_diff(const std::string &a, const std::string &b, size_t &first,
               size_t &last) {
  first = 1;
  last = 0;
  if (a.size() != b.size()) {
    first = (size_t)-1;
    last = (size_t)-1;
    return;
  }
  bool any = false;
  for (size_t o = 192; o < a.size(); ++o)
    if (a[o] != b[o]) {
      if (!any)
        first = o;
      last = o;
      any = true;
    }
}

// hydro events go to the RHD ledger, packet / photon task / iteration events
// to the packet ledger (C01 on the radiation step of the RHD driver)
class BothLedgers : public Listener {
public:
  rhd::Ledger &H;
  ion::LedgerT< HydroDensitySubGrid > &I;
  BothLedgers(rhd::Ledger &h, ion::LedgerT< HydroDensitySubGrid > &i)
      : H(h), I(i) {}
  virtual void on_event(int kind, const void *a, const void *b, long x,
                        long y) {
    switch (kind) {
    case CMI_VERIF_EVENT_HYDRO_STEP_BEGIN:
    case CMI_VERIF_EVENT_HYDRO_STEP_END:
    case CMI_VERIF_EVENT_HYDRO_TASK_BEGIN:
    case CMI_VERIF_EVENT_HYDRO_TASK_END:
      H.on_event(kind, a, b, x, y);
      break;
    default:
      I.on_event(kind, a, b, x, y);
    }
  }
  virtual void on_atomic(const void *addr, int op, long pre, long post) {
    I.on_atomic(addr, op, pre, post);
  }
};

class ERhdEngine : public Engine {
public:
  std::string prop;
  ERhdEngine() {
    const char *p = getenv("VERIF_PROPERTY");
    prop = p ? p : "C07";
  }
  std::string property() const { return prop; }
  void budget(const std::string &tier, uint64_t &runs, double &seconds) const {
    if (tier == "quick") {
      runs = 100000;
      seconds = 100;
    } else {
      runs = 10000000;
      seconds = 1700;
    }
  }
  int watchdog_seconds() const { return 240; }
  void setup() {
    std::string d = scratch_dir();
    if (chdir(d.c_str())) {
    }
  }

  // directed cases: one instance of every known finding, so that the
  // KNOWN-FINDING line is printed as long as the finding is present
  std::vector< Json > directed(const std::string &tier) {
    std::vector< Json > v;
    const char *vm = getenv("VERIF_MODE");
    if (prop == "C12" && !(vm && std::string(vm) == "valgrind")) {
      const char *root = getenv("VERIF_ROOT");
      const std::string path =
          std::string(root ? root : "/verif") + "/directed/C12-cooling-nan.json";
      try {
        v.push_back(Json::parse_file(path));
      } catch (...) {
      }
    }
    (void)tier;
    return v;
  }

  Json generate(uint64_t run_seed, const std::string &tier, uint64_t index) {
    Rng r(run_seed);
    Cfg c;
    const bool thorough = tier == "thorough";
    c.dyadic = r.chance(0.5);
    for (int k = 0; k < 3; ++k) {
      static const int subs[] = {1, 1, 2, 2, 2, 3, 4};
      static const int cells[] = {1, 2, 2, 3, 4};
      c.nsub[k] = subs[r.below(thorough ? 7 : 6)];
      c.ncell[k] = c.nsub[k] * cells[r.below(thorough ? 5 : 4)];
      if (c.ncell[k] < 2)
        c.ncell[k] = 2 * c.nsub[k];
    }
    const double pc = 3.0856775814913673e16;
    if (c.dyadic) {
      for (int k = 0; k < 3; ++k) {
        c.sides[k] = std::ldexp(1., 55 + (int)r.range(0, 1));
        c.anchor[k] = -std::ldexp((double)r.range(0, 4), 53);
      }
    } else {
      for (int k = 0; k < 3; ++k) {
        c.sides[k] = pc * r.uniform(0.5, 3.);
        c.anchor[k] = c.sides[k] * r.uniform(-1., 1.);
      }
    }
    // boundaries: all eight periodicity combinations
    const int pmask = r.chance(0.3) ? 7 : (int)r.below(8);
    for (int k = 0; k < 3; ++k) {
      if ((pmask >> k) & 1) {
        c.bc_lo[k] = c.bc_hi[k] = 0;
      } else if (prop == "C04" || r.chance(0.5)) {
        c.bc_lo[k] = c.bc_hi[k] = 1; // reflective
      } else {
        c.bc_lo[k] = (int)r.range(1, 3);
        c.bc_hi[k] = (int)r.range(1, 3);
      }
    }
    static const double gammas[] = {5. / 3., 1.4, 1.0001, 2., 1.1};
    c.gamma = gammas[r.below(5)];
    c.threads = (int)r.range(1, thorough ? 16 : 8);
    if (index % 13 == 5)
      c.threads = 1;
    c.steps = (int)r.range(2, 4);
    // initial state: background + blocks (smooth, discontinuous, near vacuum)
    c.density = std::pow(10., r.uniform(6., 10.));
    c.temperature = std::pow(10., r.uniform(1.5, 4.));
    const double kB = 1.38064852e-23, mp = 1.6726219e-27;
    double tmax = c.temperature, vmax = 0.;
    const double cs0 = std::sqrt(c.gamma * kB * c.temperature / mp);
    for (int k = 0; k < 3; ++k) {
      c.v0[k] = r.chance(0.5) ? 0. : cs0 * r.uniform(-1.5, 1.5);
      vmax = std::max(vmax, std::fabs(c.v0[k]));
    }
    const int nb = (int)r.range(0, 3);
    for (int i = 0; i < nb; ++i) {
      Block b;
      for (int k = 0; k < 3; ++k) {
        b.f[k] = r.uniform(0., 1.);
        b.s[k] = r.uniform(0.15, 0.8);
        b.v[k] = r.chance(0.4) ? 0. : cs0 * r.uniform(-2., 2.);
        vmax = std::max(vmax, std::fabs(b.v[k]));
      }
      b.type = (int)r.below(3);
      static const double fac[] = {1e-8, 1e-3, 0.1, 0.5, 2., 10., 1000.};
      b.density = c.density * fac[r.below(7)];
      b.temperature = c.temperature * std::pow(10., r.uniform(-1., 1.5));
      tmax = std::max(tmax, b.temperature);
      c.blocks.push_back(b);
    }
    // time step: a fraction of the stability limit estimated from the
    // generated state (sound speed of fully ionised gas as upper bound)
    double cellmin = 1e300;
    for (int k = 0; k < 3; ++k)
      cellmin = std::min(cellmin, c.sides[k] / c.ncell[k]);
    const double csmax = std::sqrt(c.gamma * 2. * kB * tmax / mp);
    const double dt_stable = 0.2 * cellmin / (csmax + vmax + 1e-30);
    static const double fr[] = {1., 0.5, 0.25, 1. / 16., 1. / 64.};
    if (prop == "C10" || r.chance(0.6)) {
      c.dt = dt_stable * fr[r.below(5)];
      c.total_time = c.dt * 64.;
    } else {
      c.dt = 0.;
      c.total_time = dt_stable * 64.;
    }
    c.cfl = 0.2;
    bool caproni_box = false;
    if (prop == "C09") {
      // the property's premise: one thread; boxes whose sides are not dyadic
      // multiples of the cell count
      c.threads = 1;
      c.steps = (int)r.range(3, 8);
      c.dump_every_step = true;
      c.backups = (int)r.range(0, 3);
      // restartable optional components
      c.mask = r.chance(0.25);
      c.turbulence = r.chance(0.25);
      c.live_output = r.chance(0.3);
      c.live_mask = (int)r.below(16);
      c.gravity = r.chance(0.2);
      c.source_type = (int)r.below(6);
      c.feedback = c.source_type == 3 && r.chance(0.7);
      c.source_log = (c.source_type == 2 || c.source_type >= 4) && r.chance(0.5);
      c.fast_sources = (c.source_type == 2 || c.source_type >= 4) && r.chance(0.5);
      caproni_box = c.source_type == 5;
      c.snap_mode = (int)r.below(3);
      c.first_snapshot = r.chance(0.2) ? 3 : 0;
      if (r.chance(0.8) && c.dyadic) {
        c.dyadic = false;
        for (int k = 0; k < 3; ++k) {
          c.sides[k] = pc * r.uniform(0.5, 3.);
          c.anchor[k] = c.sides[k] * r.uniform(-1., 1.);
        }
      }
    }
    if (caproni_box) {
      // the Caproni distribution places its sources on galactic scales
      // (radius 5.7e18 m, Gaussian width 3.1e18 m): blow the box (and the
      // time step, which scales with the cell size) up so that it contains
      // them - sources outside the box are not a valid set-up
      double smin = 1e300;
      for (int k = 0; k < 3; ++k)
        smin = std::min(smin, c.sides[k]);
      const double f = 6.4e19 / smin;
      for (int k = 0; k < 3; ++k) {
        c.sides[k] *= f;
        c.anchor[k] = -0.5 * c.sides[k];
      }
      c.dyadic = false;
      c.dt *= f;
      c.total_time *= f;
    }
    if (prop == "C14") {
      // system level: the process dies at a numbered file operation of a
      // restart dump; >= 1 backup is the property's premise
      c.threads = 1;
      c.steps = (int)r.range(2, 5);
      c.dump_every_step = true;
      c.backups = (int)r.range(1, 3);
      c.mask = r.chance(0.2);
      c.turbulence = r.chance(0.2);
      c.source_type = (int)r.below(5);
      c.crash_frac = r.uniform(0., 1.);
      c.crash_variant = (int)r.below(3);
      c.crash_torn = r.uniform(0., 1.);
    }
    if (prop == "C07" || prop == "C04" || prop == "C10") {
      // a step after a restart is a step too: stop after the first step and
      // continue from the dump, with the same or another number of threads
      if (r.chance(0.15)) {
        c.dump_every_step = true;
        c.backups = 1;
        c.restart_midway = true;
        c.restart_threads = r.chance(0.6) ? (int)r.range(1, 8) : 0;
      }
    }
    if (prop == "C01") {
      // the radiation step of the RHD driver (a copy of the photon loop)
      c.radiation = true;
      static const long pk[] = {1, 13, 27, 100, 333, 999, 1300};
      c.packets = pk[r.below(7)];
      c.steps = (int)r.range(1, 3);
      c.threads = std::min(c.threads, 8);
      c.diffuse_rhd = r.chance(0.4);
      c.rad_mode = r.chance(0.2) ? 1 : 0;
      c.tight_pools = c.threads > 1 && r.chance(0.35);
      c.pool_slack = c.tight_pools && r.chance(0.5) ? 1 + (int)r.below(2) : 0;
      c.copy_level = (int)r.below(3);
    }
    if (prop == "C12") {
      // widen over optional components and run modes
      c.radiation = r.chance(0.4);
      c.packets = (long)r.range(50, 600);
      c.mask = r.chance(0.2);
      c.turbulence = r.chance(0.2);
      c.live_output = r.chance(0.4);
      c.live_mask = (int)r.below(16);
      c.gravity = r.chance(0.2);
      c.cooling = r.chance(0.2) && c.gamma > 1.01;
      c.writer = r.chance(0.3) ? 1 : 0;
      c.dump_every_step = r.chance(0.5);
      c.restart_midway = c.dump_every_step && r.chance(0.6) && c.steps >= 2;
      // the restarted run may be given another number of threads
      c.restart_threads =
          c.restart_midway && r.chance(0.5) ? (int)r.range(1, 6) : 0;
      c.source_type = (int)r.below(5);
      c.feedback = c.source_type == 3 && r.chance(0.5);
      c.source_log = (c.source_type == 2 || c.source_type == 4) && r.chance(0.5);
      c.fast_sources = (c.source_type == 2 || c.source_type == 4) && r.chance(0.5);
      c.backups = (int)r.range(0, 3);
      c.threads = std::min(c.threads, 6);
      c.snap_mode = (int)r.below(3);
      c.first_snapshot = r.chance(0.2) ? 3 : 0;
      c.rad_mode = r.chance(0.3) ? 1 : 0;
      c.max_neutral = r.chance(0.3) ? 0.3 : -1.;
      c.diffuse_rhd = r.chance(0.4);
      c.fields_mask = r.chance(0.4) ? (int)r.below(256) : 0;
      c.copy_level = c.radiation ? (int)r.below(3) : 0;
      c.task_plot_rhd = c.radiation && r.chance(0.15) ? (int)r.range(1, 2) : 0;
      if (c.periodic(0) || c.periodic(1) || c.periodic(2))
        c.task_plot_rhd = 0; // see Cfg::task_plot_rhd
      const char *vm = getenv("VERIF_MODE");
      if (vm && std::string(vm) == "valgrind") {
        // memcheck part: about 50x slower, and without UBSan the known
        // cooling-table finding would show up as an unattributable SIGSEGV
        c.cooling = false;
        c.threads = std::min(c.threads, 3);
        c.restart_threads = std::min(c.restart_threads, 3);
        c.steps = std::min(c.steps, 2);
        c.packets = std::min(c.packets, 150l);
      }
    }
    c.seed = (int)r.range(1, 100000);
    c.sched = Sched::draw(r, 3000000ull);
    c.sched.total_cap = 80000000ull;
    return c.to_json();
  }

  Outcome execute_c09(const Cfg &c, const Json &cj);
  Outcome execute_c14(const Cfg &c);

  Outcome execute(const Json &cj) {
    Outcome out;
    Cfg c = Cfg::from_json(cj);
    if (prop == "C09")
      return execute_c09(c, cj);
    if (prop == "C14")
      return execute_c14(c);
    const std::string dir = scratch_dir();
    auto init_ion_ledger = [&](ion::LedgerT< HydroDensitySubGrid > &X) {
      ion::Cfg ic;
      for (int k = 0; k < 3; ++k) {
        ic.ncell[k] = c.ncell[k];
        ic.nsub[k] = c.nsub[k];
        ic.periodic[k] = c.periodic(k);
        ic.anchor[k] = c.anchor[k];
        ic.sides[k] = c.sides[k];
      }
      ic.seed = c.seed;
      ic.packets = c.packets;
      ic.threads = c.threads;
      X.lay.init(ic);
      X.record_segments = false;
    };
    bool tight = false;
    if (prop == "C01" && c.tight_pools && c.nbuffers == 0 && c.ntasks == 0 &&
        !c.restart_midway) {
      // measuring run (see E-ION): same case and schedule with ample pools
      const std::string pf0 = c.write_files(dir);
      scrub_memory(0xA5);
      Ledger M;
      M.lay.init(c);
      ion::LedgerT< HydroDensitySubGrid > MI;
      init_ion_ledger(MI);
      BothLedgers mboth(M, MI);
      run_begin(c.sched, &mboth);
      int rc0 = -1;
      const bool fin0 = guarded([&]() {
        rc0 = run_rhd(pf0, c.threads,
                      {"--number-of-steps", std::to_string(c.steps)});
      });
      run_end();
      if (getenv("EION_DEBUG_POOLS"))
        fprintf(stderr, "measuring run: fin %d rc %d failed %d/%d (%s) max buffers %ld tasks %ld\n",
                (int)fin0, rc0, (int)M.failed, (int)MI.failed,
                MI.violation.message.c_str(), MI.max_buffers_in_use, MI.max_tasks_in_use);
      if (fin0 && rc0 == 0 && !M.failed && !MI.failed &&
          MI.max_buffers_in_use > 0) {
        const long safe_b = c.packets + 27 * c.total_subgrids() * (4 << c.copy_level) + 64;
        const long safe_t = 18 * c.total_subgrids() + 6 * c.packets + 2000;
        const long margin = c.threads + 2; // of the exhaustion guard
        if (c.pool_slack == 0) {
          c.nbuffers = std::min(safe_b, 2 * MI.max_buffers_in_use + 32);
          c.ntasks = std::min(safe_t, 18l * c.total_subgrids() +
                                          2 * MI.max_tasks_in_use + 64);
        } else {
          // nearly full pools: a slot that is given back is handed out
          // again at once (the measured occupancy includes the hydro tasks)
          const long fb = c.pool_slack == 1 ? MI.max_buffers_in_use / 4 + 8 : 4;
          const long ft = c.pool_slack == 1 ? MI.max_tasks_in_use / 4 + 8 : 4;
          c.nbuffers = std::min(safe_b, MI.max_buffers_in_use + fb + margin);
          c.ntasks = std::min(safe_t, MI.max_tasks_in_use + ft + margin);
        }
        tight = true;
      } else if (!fin0) {
        out.notes.push_back("measuring run for reduced pools did not finish: "
                            "case skipped");
        out.restart_worker = true;
        out.hash = 0x9001;
        out.stats = Json::object();
        out.signature = Json::object();
        return out;
      }
    }
    const std::string pf = c.write_files(dir);
    scrub_memory(0xA5);
    Ledger L;
    L.lay.init(c);
    L.want_reference = (prop == "C10");
    L.want_conservation = (prop == "C04");
    ion::LedgerT< HydroDensitySubGrid > IL;
    init_ion_ledger(IL);
    {
      // each ledger only stops for classes of the property being decided
      const char **hl = prop == "C10"   ? C10_CLASSES
                        : prop == "C04" ? C04_CLASSES
                        : prop == "C07" ? C07_CLASSES
                                        : nullptr;
      if (hl)
        for (int k = 0; hl[k]; ++k)
          L.my_classes.insert(hl[k]);
      else
        L.my_classes.insert("(none)");
      if (prop == "C01")
        for (int k = 0; C01_CLASSES[k]; ++k)
          IL.my_classes.insert(C01_CLASSES[k]);
      else
        IL.my_classes.insert("(none)");
    }
    if (tight) {
      IL.cap_buffers = c.nbuffers;
      IL.pool_margin = c.threads + 2;
    }
    BothLedgers both(L, IL);
    valgrind_mark();
    run_begin(c.sched, prop == "C01" ? (Listener *)&both : (Listener *)&L);
    int rc = -1;
    bool finished = guarded([&]() {
      std::vector< std::string > extra;
      if (c.task_plot_rhd > 0) {
        extra.push_back("--task-plot-rhd");
        extra.push_back(std::to_string(c.task_plot_rhd));
      }
      extra.push_back("--number-of-steps");
      if (c.restart_midway) {
        // stop after the first step, then restart from the dump
        extra.push_back("1");
        rc = run_rhd(pf, c.threads, extra);
        if (rc == 0) {
          std::vector< std::string > extra2;
          if (c.task_plot_rhd > 0) {
            extra2.push_back("--task-plot-rhd");
            extra2.push_back(std::to_string(c.task_plot_rhd));
          }
          extra2.push_back("--restart");
          extra2.push_back(dir);
          extra2.push_back("--number-of-steps");
          extra2.push_back(std::to_string(c.steps));
          scrub_memory(0xA5);
          rc = run_rhd(pf, c.restart_threads > 0 ? c.restart_threads : c.threads,
                       extra2);
        }
      } else {
        extra.push_back(std::to_string(c.steps));
        rc = run_rhd(pf, c.threads, extra);
      }
    });
    RunStats rs = run_end();

    std::string vclass, message;
    std::string vgtext;
    const long vgerrors = valgrind_report(vgtext);
    if (vgerrors > 0) {
      vclass = "memcheck";
      message = sfmt("memcheck reported %ld error(s) during the run; first: ",
                     vgerrors) + vgtext;
    } else if (prop == "C01" && IL.failed) {
      vclass = IL.violation.vclass;
      message = "radiation step of hydro step " + std::to_string(L.step + 1) +
                ": " + IL.violation.message;
    } else if (L.failed) {
      vclass = L.violation.vclass;
      message = L.violation.message;
    } else if (!finished && rs.inconclusive) {
      out.notes.push_back("run abandoned as inconclusive (total point cap)");
    } else if (!finished && tight && (IL.pool_exhausted || IL.pools_full())) {
      out.notes.push_back("run with reduced pools ran out of buffer or task "
                          "slots under this schedule: inconclusive");
    } else if (!finished && c.task_plot_rhd > 0) {
      out.notes.push_back("run in task plot mode did not finish (the task pool "
                          "holds every task of the step in this mode and may "
                          "have run out): inconclusive");
    } else if (!finished) {
      vclass = "nontermination";
      message = sfmt("hydro step %d did not end within the step budget (fair "
                     "phase included): layout %dx%dx%d, boundaries "
                     "x:%d/%d y:%d/%d z:%d/%d, %d threads",
                     L.step, c.nsub[0], c.nsub[1], c.nsub[2], c.bc_lo[0],
                     c.bc_hi[0], c.bc_lo[1], c.bc_hi[1], c.bc_lo[2], c.bc_hi[2],
                     c.threads);
    } else if (rc != 0) {
      vclass = "bad-exit";
      message = sfmt("do_simulation returned %d", rc);
    } else if ((int)L.history.size() != c.steps &&
               !(L.history.size() > 0 && !L.history.back().has_next)) {
      vclass = "task-missing";
      message = sfmt("%zu of %d hydro steps reported an end record",
                     L.history.size(), c.steps);
    }
    if (!vclass.empty()) {
      const char **mine = prop == "C01"   ? C01_CLASSES
                          : prop == "C10" ? C10_CLASSES
                          : prop == "C04" ? C04_CLASSES
                          : prop == "C09" ? C09_CLASSES
                          : prop == "C12" ? C12_CLASSES
                                          : C07_CLASSES;
      if (in_list(mine, vclass)) {
        out.vclass = vclass;
        out.message = message;
      } else {
        out.notes.push_back("violation class '" + vclass +
                            "' seen (decided by another property's check)");
      }
    }
    for (auto &fc : L.foreign_classes_seen)
      out.notes.push_back("violation class '" + fc +
                          "' seen (decided by another property's check)");
    for (auto &fc : IL.foreign_classes_seen)
      out.notes.push_back("violation class '" + fc +
                          "' seen (decided by another property's check)");
    {
    }
    out.restart_worker = !finished;
    out.hash = fnv1a(rs.hash, L.ledger_hash);
    out.executed = rs.executed;
    out.nontrivial = rs.switches > 0 && c.threads > 1;
    Json st = Json::object();
    st["points"] = (long long)rs.points;
    st["switches"] = (long long)rs.switches;
    st["regions"] = (long long)rs.regions;
    st["fair_phase_runs"] = rs.fair_phase ? 1 : 0;
    st["max_points_per_run"] = (long long)rs.points;
    for (auto &kv : L.stats) {
      if (kv.first.compare(0, 4, "max_") == 0)
        st[kv.first] = kv.second;
      else
        st[kv.first] = kv.second;
    }
    for (auto &kv : rs.probes)
      st["probe_" + kv.first] = (long long)kv.second;
    if (prop == "C01") {
      for (auto &kv : IL.stats)
        st["rad_" + kv.first] = kv.second;
      st["rad_packets_terminated"] = (long long)IL.done_total;
    }
    st[sfmt("policy_%d", c.sched.policy)] = 1;
    if (tight) {
      st["runs_with_reduced_pools"] = 1;
      if (IL.total_buffers_taken > IL.cap_buffers)
        st["runs_in_which_the_buffer_pool_wrapped"] = 1;
    }
    st[sfmt("threads_%02d", c.threads)] = 1;
    int nper = 0, single_periodic = 0;
    for (int k = 0; k < 3; ++k) {
      if (c.periodic(k)) {
        ++nper;
        if (c.nsub[k] == 1)
          single_periodic = 1;
      }
    }
    st[sfmt("periodic_axes_%d", nper)] = 1;
    st["runs_with_periodic_axis_of_one_subgrid"] = single_periodic;
    out.stats = st;
    Json sig = Json::object();
    sig["periodic_axis_with_one_subgrid"] = single_periodic != 0;
    bool reflecting = false;
    for (int k = 0; k < 3; ++k)
      if (!c.periodic(k) && c.bc_lo[k] == 1)
        reflecting = true;
    sig["reflecting_wall"] = reflecting;
    out.signature = sig;
    return out;
  }

  std::vector< Json > shrink(const Json &cj) {
    std::vector< Json > v;
    Cfg c = Cfg::from_json(cj);
    auto push = [&](const Cfg &n) { v.push_back(n.to_json()); };
    if (c.steps > 1) {
      Cfg n = c;
      n.steps = 1;
      push(n);
      n = c;
      n.steps = c.steps - 1;
      push(n);
    }
    if (c.threads > 1) {
      Cfg n = c;
      n.threads = 1;
      push(n);
      n = c;
      n.threads = c.threads - 1;
      push(n);
    }
    for (size_t k = 0; k < c.blocks.size(); ++k) {
      Cfg n = c;
      n.blocks.erase(n.blocks.begin() + (long)k);
      push(n);
    }
    for (int k = 0; k < 3; ++k) {
      if (c.nsub[k] > 1) {
        Cfg n = c;
        n.nsub[k] = c.nsub[k] == 3 ? 1 : c.nsub[k] / 2;
        if (n.ncell[k] % n.nsub[k] == 0)
          push(n);
      }
      if (c.ncell[k] / c.nsub[k] > 2 && (c.ncell[k] / 2) % c.nsub[k] == 0) {
        Cfg n = c;
        n.ncell[k] = c.ncell[k] / 2;
        push(n);
      }
      if (c.v0[k] != 0.) {
        Cfg n = c;
        n.v0[k] = 0.;
        push(n);
      }
    }
    return v;
  }

  void describe(Json &cov, Json &assumptions) const {
    std::string what;
    if (prop == "C07")
      what = "the start/stop trace of every hydro task (hook H7) is checked "
             "against a task graph derived from layout and boundary types "
             "alone: every expected task exactly once per step, no task "
             "before all tasks it depends on have stopped, no two running "
             "tasks touch the same subgrid (the start trace point is itself a "
             "scheduling point), the executing thread holds the lock of every "
             "subgrid its task touches, the step terminates (progress-based "
             "budget, second half fair), counters and queues are empty "
             "afterwards, and the code's own task tables (children, parent "
             "counters after reset) describe the same graph";
    else if (prop == "C10")
      what = "after every step the cell states are compared, cell by cell in "
             "global cell order, with a plain sequential execution of the "
             "scheme's sweeps on one undivided block started from the same "
             "state (fixed time step); tolerance 1e-11 of the local scale "
             "(largest magnitude over the cell and its six neighbours, at "
             "least 1e-3 of the grid maximum)";
    else if (prop == "C01")
      what = "RHD part of C01: runs with the radiation step switched on (1-3 "
             "hydro steps x 2 photoionization iterations, Verner atomic data); "
             "the packet ledger of C01 is attached to the copy of the photon "
             "loop inside the RHD driver (hook H6b): launched == requested == "
             "terminated exactly once, the code's own counter, packet/task "
             "ownership, no buffer / queue entry / outgoing buffer left, task "
             "slots in use == persistent hydro tasks + temperature tasks of "
             "earlier iterations";
    else if (prop == "C12" && getenv("VERIF_MODE") &&
             std::string(getenv("VERIF_MODE")) == "valgrind")
      what = "memcheck part of C12 (task-based RHD mode): the whole check "
             "runs under valgrind memcheck; after every simulated run "
             "(optional components as in the sanitizer part, without "
             "radiative cooling - its known table-index finding would be an "
             "unattributable SIGSEGV here -, at most 2 steps and 3 threads) "
             "the engine asks memcheck whether it reported a use of "
             "uninitialised memory or an invalid access during that run";
    else if (prop == "C12")
      what = "sanitizer part of C12 (task-based RHD mode): runs built with "
             "AddressSanitizer + UndefinedBehaviorSanitizer, widened over "
             "radiation on/off (Verner atomic data), radiative cooling, "
             "external gravity, hydro mask, turbulence forcing, live output "
             "(all 16 combinations of its four calculators), Gadget / AsciiFile "
             "writer, snapshots during the run, radiation every step or every "
             "2.5 steps, diffuse re-emission, a maximum neutral fraction, five "
             "source distributions (two of them with or without their "
             "source log), source copy levels 0-2, --task-plot-rhd, restart "
             "dumps every step and a stop + restart after the first step, "
             "the restarted run with the same or another number of threads "
             "(1-6); stack and heap pre-filled with 0xA5; oracle: normal "
             "return, no sanitizer report / signal / abort";
    else if (prop == "C14")
      what = "system-level part of C14: an uninterrupted run A (dump after "
             "every step, 1-3 backups) numbers every file-system operation "
             "on the restart files (open, write, close, rename; libc entry "
             "points defined in the harness); the same run is repeated in a "
             "forked child that dies before / after / in the middle of "
             "(torn write) one seeded operation; the surviving restart.dump "
             "and restart.<i>.back files are compared byte for byte with A's "
             "complete dumps: when the death falls into the dump after step "
             "s >= 2, a complete dump of step s-1 or s must exist, every "
             "backup file must be a complete dump, and a run restarted (in "
             "another child) from the newest complete file must finish and "
             "repeat A's remaining steps bit for bit";
    else if (prop == "C09")
      what = "restart experiments, one simulated thread: an uninterrupted run "
             "A with a dump after every step and a per-step digest (FNV-1a "
             "over the raw bytes of all hydro and ionization variables in "
             "global cell order, plus requested/actual step, time, has-next); "
             "then chains of 1-3 stops at seeded steps, each by one of four "
             "real mechanisms (--number-of-steps, stop file, simulated wall "
             "clock jumping beyond 'maximum time', SIGINT), each followed by "
             "--restart from the dump left behind: every later step must be "
             "bitwise identical to A, every later dump byte-identical to A's "
             "outside the 192 leading timer bytes and one 8-byte window (the "
             "re-seeded random seed); one dump per run is read through the "
             "restart constructors do_simulation uses and written again "
             "(bytes must be identical); optional components: hydro mask, "
             "turbulence forcing, live output, gravity, six source "
             "distributions (three of them with or without their source log)";
    else
      what = "totals of mass, momentum and energy (long double, compensated "
             "summation) are compared before and after every step: all five "
             "in periodic boxes, mass and energy in boxes with reflecting "
             "walls, within 1e-12 of the totals, unless a positivity clamp "
             "fired; after every step all masses, energies, densities and "
             "pressures must be finite and non-negative";
    cov["rule"] =
        "each run = one whole task-based RHD simulation (do_simulation, pure "
        "hydro, 2-4 steps) from a generated parameter file: 1-4 subgrids per "
        "axis, all eight periodicity combinations with reflective / inflow / "
        "outflow walls, adiabatic index in {5/3, 1.4, 1.0001, 2, 1.1}, "
        "background plus 0-3 blocks with density contrasts 1e-8..1e3, "
        "temperature contrasts and velocities up to Mach 2, fixed or "
        "CFL-controlled step, 1-16 simulated threads, one seeded schedule; " +
        what +
        ". distinct = distinct event-log hash; non-trivial = >=2 threads and "
        ">=1 context switch";
    Json comp = Json::object();
    comp["real"] = "whole RHD engine from /repo/src: parameter parsing, grid "
                   "creator, hydro sweeps, HLLC Riemann solver, boundaries, "
                   "time line, task tables, queues, restart manager";
    comp["stub"] = "libgomp (detsim fibers), rdtsc, MPI disabled";
    cov["components"] = comp;
    cov["fault_kinds"] = "preemption at every AtomicValue operation, at "
                         "every task start and (60 % of the runs) at every "
                         "task / packet event (policies uniform/burst/pct/rr/after-release), "
                         "task stealing; C09: stop by step count / stop file / "
                         "simulated wall-clock jump / SIGINT and restart; C14: "
                         "process death before / after / in the middle of a "
                         "numbered file operation of a restart dump, restart, "
                         "second death";
    assumptions.push("sequential consistency at the granularity of "
                     "AtomicValue operations");
    if (prop == "C10")
      assumptions.push("the reference reuses the code's sweep functions in "
                       "sequential order on one block (errors common to both "
                       "sides belong to C04/C05)");
  }
};

// ---------------------------------------------------------------- C09 ----
Outcome ERhdEngine::execute_c09(const Cfg &c, const Json &cj) {
  Outcome out;
  const std::string dir = scratch_dir();
  const std::string pf = c.write_files(dir);
  Rng fr(mix64((uint64_t)c.seed, 0xc09));
  const int N = c.steps;
  std::string vclass, message;
  auto fail = [&](const std::string &cl, const std::string &m) {
    if (vclass.empty()) {
      vclass = cl;
      message = m;
    }
  };
  long long restarts = 0, dumps_compared = 0, steps_compared = 0,
            roundtrips = 0;
  std::map< std::string, long long > mech_count;
  uint64_t hash = FNV_INIT;
  long seed_lo = -1, seed_hi = -1;
  bool aborted = false, inconclusive = false;
  RunStats rs_total;

  clock_enable(true);
  clock_set(1.7e9);

  // one run of do_simulation; dumps are copied as <tag>_dump_<step>
  struct RunResult {
    bool finished = false;
    int rc = -1;
    std::vector< Ledger::StepRecord > history;
    bool ledger_failed = false;
    Violation violation;
  };
  auto run = [&](const std::string &tag, const std::vector< std::string > &extra,
                 int stop_at, int mechanism) {
    RunResult rr;
    Ledger L;
    L.lay.init(c);
    L.yield_at_task_begin = false;
    int last_step = 0;
    L.on_step_begin = [&](Ledger &l) {
      // the dump of the previous step exists now
      if (last_step > 0)
        copy_file(dir + "/restart.dump",
                  dir + "/" + tag + "_dump_" + std::to_string(last_step));
      (void)l;
    };
    L.on_step_end = [&](Ledger &l) {
      last_step = l.step;
      clock_advance(1.);
      if (l.step == stop_at) {
        if (mechanism == 1) { // stop file
          std::ofstream sf(dir + "/stop");
          sf << "stop\n";
        } else if (mechanism == 2) { // wall clock limit
          clock_advance(1e9);
        } else if (mechanism == 3) { // CTRL+C
          raise(SIGINT);
        }
      }
    };
    run_begin(c.sched, &L);
    // every (re)started process image begins from hostile memory, so that a
    // member a restart constructor forgets to set cannot inherit the right
    // value from the previous run in this process
    scrub_memory(0xA5);
    rr.finished = guarded([&]() { rr.rc = run_rhd(pf, 1, extra); });
    RunStats rs = run_end();
    if (!rr.finished) {
      aborted = true;
      inconclusive = rs.inconclusive;
    }
    hash = fnv1a(hash, rs.hash);
    hash = fnv1a(hash, L.ledger_hash);
    if (last_step > 0 && rr.finished)
      copy_file(dir + "/restart.dump",
                dir + "/" + tag + "_dump_" + std::to_string(last_step));
    rr.history = L.history;
    rr.ledger_failed = L.failed;
    rr.violation = L.violation;
    rs_total.points += rs.points;
    return rr;
  };

  // ---- A: the uninterrupted run ----
  RunResult A = run("A", {"--number-of-steps", std::to_string(N)}, -1, 0);
  if (!A.finished || A.rc != 0 || A.ledger_failed || A.history.empty()) {
    // not a C09 matter: the uninterrupted run itself has a problem
    out.notes.push_back("uninterrupted run did not complete cleanly (decided "
                        "by other properties)");
    out.restart_worker = aborted;
    out.hash = hash;
    out.stats = Json::object();
    out.signature = Json::object();
    clock_enable(false);
    return out;
  }
  const int NA = (int)A.history.size(); // may end early (end of time line)
  auto A_step = [&](int j) -> const Ledger::StepRecord * {
    for (auto &h : A.history)
      if (h.step == j)
        return &h;
    return nullptr;
  };

  // ---- component round trip of a dump ----
  if (vclass.empty()) {
    const int j = 1 + (int)fr.below((uint64_t)NA);
    const std::string in = dir + "/A_dump_" + std::to_string(j);
    const std::string orig = slurp(in);
    if (!orig.empty()) {
      const std::string again = roundtrip_dump(in, dir + "/roundtrip.dump", c);
      ++roundtrips;
      if (again != orig) {
        size_t o = 0;
        while (o < orig.size() && o < again.size() && orig[o] == again[o])
          ++o;
        fail("roundtrip-bytes",
             sfmt("dump of step %d read through the restart constructors and "
                  "written again differs: %zu vs %zu bytes, first difference "
                  "at byte %zu",
                  j, orig.size(), again.size(), o));
      }
    }
  }

  // ---- restart experiments ----
  const int nexp = NA >= 2 ? (int)fr.range(1, 3) : 0;
  for (int e = 0; e < nexp && vclass.empty() && !aborted; ++e) {
    // a chain of 1-3 stops k1 < k2 < ... < NA
    std::vector< int > ks;
    const int links = (int)fr.range(1, 3);
    for (int l = 0; l < links; ++l) {
      const int lo = ks.empty() ? 1 : ks.back() + 1;
      if (lo > NA - 1)
        break;
      ks.push_back((int)fr.range(lo, NA - 1));
    }
    std::string from_tag = "A";
    int from_step = 0; // 0 = fresh start
    for (size_t l = 0; l <= ks.size() && vclass.empty() && !aborted; ++l) {
      const bool last = l == ks.size();
      const int target = last ? N : ks[l];
      const int mechanism = last ? 0 : (int)fr.below(4);
      static const char *mn[] = {"number-of-steps", "stop file",
                                 "wall clock limit", "SIGINT"};
      const std::string tag = sfmt("E%d_%zu", e, l);
      std::vector< std::string > extra;
      if (from_step > 0) {
        // restart from the dump the previous link left behind
        const std::string rdir = dir + "/" + tag + "_restart";
        mkdir(rdir.c_str(), 0700);
        copy_file(dir + "/" + from_tag + "_dump_" + std::to_string(from_step),
                  rdir + "/restart.dump");
        extra.push_back("--restart");
        extra.push_back(rdir);
        ++restarts;
      }
      extra.push_back("--number-of-steps");
      extra.push_back(std::to_string((mechanism == 0 || last) ? target : N));
      if (!last)
        ++mech_count[mn[mechanism]];
      RunResult B = run(tag, extra, last ? -1 : target, mechanism);
      if (aborted)
        break;
      if (!B.finished || B.rc != 0) {
        fail("restart-failed", sfmt("run restarted from the dump of step %d "
                                    "returned %d",
                                    from_step, B.rc));
        break;
      }
      // the steps this link executed
      for (auto &h : B.history) {
        const Ledger::StepRecord *a = A_step(h.step);
        if (h.step <= from_step || !a) {
          fail("restart-divergence",
               sfmt("run restarted from the dump of step %d executed step %d",
                    from_step, h.step));
          break;
        }
        ++steps_compared;
        if (h.digest != a->digest || h.actual != a->actual ||
            h.time != a->time || h.requested != a->requested ||
            h.has_next != a->has_next) {
          fail("restart-divergence",
               sfmt("run restarted from the dump of step %d (stopped by %s): "
                    "state after step %d differs from the uninterrupted run "
                    "(digest %016llx vs %016llx, next step %.17g vs %.17g, "
                    "time %.17g vs %.17g)",
                    from_step, from_step > 0 ? "restart" : "-", h.step,
                    (unsigned long long)h.digest,
                    (unsigned long long)a->digest, h.actual, a->actual, h.time,
                    a->time));
          break;
        }
        // the dump written after this step
        const std::string da =
            slurp(dir + "/A_dump_" + std::to_string(h.step));
        const std::string db =
            slurp(dir + "/" + tag + "_dump_" + std::to_string(h.step));
        if (!da.empty() && !db.empty()) {
          ++dumps_compared;
          size_t first, last;
          dump_diff(da, db, first, last);
          if (first <= last) {
            // the only field allowed to differ is the re-seeded random seed:
            // all differing bytes of all comparisons lie in one 8-byte window
            const long lo = seed_lo < 0 ? (long)first : std::min(seed_lo, (long)first);
            const long hi = seed_hi < 0 ? (long)last : std::max(seed_hi, (long)last);
            if (first == (size_t)-1 || hi - lo >= 8) {
              fail("dump-differs",
                   sfmt("dump after step %d of the run restarted from step %d "
                        "differs from the uninterrupted run's dump outside "
                        "the timers and the random seed field (bytes %zu..%zu "
                        "differ, seed field seen at %ld..%ld; sizes %zu / "
                        "%zu)",
                        h.step, from_step, first, last, seed_lo, seed_hi,
                        da.size(), db.size()));
              break;
            }
            seed_lo = lo;
            seed_hi = hi;
          }
        }
      }
      if (!vclass.empty())
        break;
      const int reached = B.history.empty() ? from_step : B.history.back().step;
      if (!last && reached != target && reached < NA) {
        fail("stop-not-honoured",
             sfmt("stop requested after step %d through '%s' but the run "
                  "went on to step %d",
                  target, mn[mechanism], reached));
        break;
      }
      from_tag = tag;
      from_step = reached;
      if (reached >= NA)
        break;
    }
  }
  clock_enable(false);

  if (aborted && !inconclusive && vclass.empty())
    out.notes.push_back("a run of the restart experiment did not terminate "
                        "(decided by C07)");
  out.vclass = vclass;
  out.message = message;
  out.restart_worker = aborted;
  out.hash = hash;
  out.nontrivial = restarts > 0 && steps_compared > 0;
  Json st = Json::object();
  st["restarts"] = restarts;
  st["steps_compared_after_restart"] = steps_compared;
  st["dumps_compared"] = dumps_compared;
  st["component_roundtrips"] = roundtrips;
  st["hydro_steps_uninterrupted"] = NA;
  for (auto &kv : mech_count)
    st["stop_by_" + kv.first] = kv.second;
  st["points"] = (long long)rs_total.points;
  bool nondyadic = false;
  for (int k = 0; k < 3; ++k) {
    // per subgrid, as the code computes it
    const double sub = c.sides[k] / c.nsub[k];
    const int nc = c.ncell[k] / c.nsub[k];
    if (1. / (sub / nc) != nc / sub)
      nondyadic = true;
  }
  st["runs_with_inexact_inverse_cell_size"] = nondyadic ? 1 : 0;
  out.stats = st;
  Json sig = Json::object();
  sig["inexact_inverse_cell_size"] = nondyadic;
  out.signature = sig;
  (void)cj;
  return out;
}


// ---------------------------------------------------------------- C14 ------
// System-level crash experiment: see describe().
Outcome ERhdEngine::execute_c14(const Cfg &c) {
  Outcome out;
  const std::string dir = scratch_dir();
  const std::string pf = c.write_files(dir);
  const int N = c.steps;
  std::string vclass, message;
  auto fail = [&](const std::string &cl, const std::string &m) {
    if (vclass.empty()) {
      vclass = cl;
      message = m;
    }
  };
  uint64_t hash = FNV_INIT;
  std::map< std::string, long long > st;
  clock_enable(true);
  clock_set(1.7e9);
  auto remove_restart_files = [&]() {
    DIR *dp = opendir(dir.c_str());
    if (!dp)
      return;
    std::vector< std::string > names;
    while (struct dirent *e = readdir(dp)) {
      std::string n = e->d_name;
      if (n.compare(0, 8, "restart.") == 0)
        names.push_back(n);
    }
    closedir(dp);
    for (auto &n : names)
      unlink((dir + "/" + n).c_str());
  };
  auto restart_files = [&]() {
    std::map< std::string, std::string > m;
    DIR *dp = opendir(dir.c_str());
    if (!dp)
      return m;
    while (struct dirent *e = readdir(dp)) {
      std::string n = e->d_name;
      if (n.compare(0, 8, "restart.") == 0)
        m[n] = slurp(dir + "/" + n);
    }
    closedir(dp);
    return m;
  };

  // one run of do_simulation in this process image (worker or forked child)
  struct RunResult {
    bool finished = false;
    int rc = -1;
    std::vector< Ledger::StepRecord > history;
    std::map< int, std::string > dumps; // complete dump after step j
    RunStats rs;
    bool ledger_failed = false;
  };
  auto run = [&](const std::vector< std::string > &extra, bool keep_dumps) {
    RunResult rr;
    Ledger L;
    L.lay.init(c);
    L.yield_at_task_begin = false;
    int last_step = 0;
    L.on_step_begin = [&](Ledger &l) {
      if (keep_dumps && last_step > 0)
        rr.dumps[last_step] = slurp(dir + "/restart.dump");
      (void)l;
    };
    L.on_step_end = [&](Ledger &l) {
      last_step = l.step;
      fsim::set_tag(l.step);
      clock_advance(1.);
    };
    run_begin(c.sched, &L);
    scrub_memory(0xA5);
    rr.finished = guarded([&]() { rr.rc = run_rhd(pf, 1, extra); });
    rr.rs = run_end();
    if (keep_dumps && last_step > 0 && rr.finished)
      rr.dumps[last_step] = slurp(dir + "/restart.dump");
    rr.history = L.history;
    rr.ledger_failed = L.failed;
    if (L.failed && getenv("EC14_DEBUG"))
      fprintf(stderr, "EC14 ledger: %s: %s\n", L.violation.vclass.c_str(),
              L.violation.message.c_str());
    return rr;
  };

  if (getenv("EC14_DEBUG"))
    fprintf(stderr, "EC14 dir %s\n", dir.c_str());
  // ---- A: uninterrupted, numbering the file operations ----
  remove_restart_files();
  fsim::set_filter("restart.");
  fsim::set_tag(0);
  fsim::arm(-1, 0, 0.5);
  RunResult A = run({"--number-of-steps", std::to_string(N)}, true);
  fsim::disarm();
  const std::vector< fsim::Op > oplog = fsim::log();
  hash = fnv1a(hash, A.rs.hash);
  if (!A.finished || A.rc != 0 || A.ledger_failed || A.history.empty() ||
      oplog.empty()) {
    out.notes.push_back("uninterrupted run did not complete cleanly (decided "
                        "by other properties)");
    out.restart_worker = !A.finished;
    out.hash = hash;
    out.stats = Json::object();
    out.signature = Json::object();
    clock_enable(false);
    return out;
  }
  const int NA = (int)A.history.size();
  const long nops = (long)oplog.size();
  long k = (long)(c.crash_frac * (double)nops);
  if (k >= nops)
    k = nops - 1;
  const fsim::Op &op = oplog[(size_t)k];
  const int s = op.tag; // the death falls into the dump written after step s
  st["file_operations_numbered"] = nops;
  st[std::string("death_at_") + op.kind] = 1;
  st[sfmt("death_variant_%d", c.crash_variant)] = 1;
  st[sfmt("backups_%d", c.backups)] = 1;
  // which complete dump does a byte string equal? (0 = none)
  auto which_dump = [&](const std::string &bytes) {
    for (auto &kv : A.dumps) {
      if (kv.second.size() != bytes.size())
        continue;
      size_t first, last;
      dump_diff(kv.second, bytes, first, last);
      if (first > last)
        return kv.first;
    }
    return 0;
  };

  // ---- the same run in a child that dies at operation k ----
  remove_restart_files();
  fflush(stdout);
  fflush(stderr);
  pid_t pid = fork();
  if (pid == 0) {
    clock_set(1.7e9);
    fsim::set_tag(0);
    fsim::arm(k, c.crash_variant, c.crash_torn);
    RunResult C = run({"--number-of-steps", std::to_string(N)}, false);
    // not reached when the death point is hit
    syscall(SYS_exit_group, C.finished ? 3 : 4);
  }
  int status = 0;
  waitpid(pid, &status, 0);
  if (!(WIFEXITED(status) && WEXITSTATUS(status) == 137)) {
    out.notes.push_back(sfmt("crash child did not die at the chosen file "
                             "operation (wait status 0x%x): inconclusive",
                             status));
    out.hash = hash;
    out.stats = Json::object();
    out.signature = Json::object();
    clock_enable(false);
    return out;
  }
  ++st["process_deaths"];

  // ---- what is on disk ----
  std::map< std::string, std::string > files = restart_files();
  if (getenv("EC14_DEBUG")) {
    for (auto &kv : A.dumps)
      fprintf(stderr, "EC14 A dump %d: %zu bytes\n", kv.first, kv.second.size());
    for (auto &kv : files)
      fprintf(stderr, "EC14 file %s: %zu bytes\n", kv.first.c_str(), kv.second.size());
    for (auto &o : oplog)
      fprintf(stderr, "EC14 op %ld %s %s %ld tag %d\n", o.index, o.kind.c_str(), o.path.c_str(), o.bytes, o.tag);
    for (auto &kv : files) {
      std::ofstream o(dir + "/dbg_" + kv.first, std::ios::binary);
      o << kv.second;
    }
    for (auto &kv : A.dumps) {
      std::ofstream o(dir + "/dbg_A_" + std::to_string(kv.first), std::ios::binary);
      o << kv.second;
    }
  }
  std::string listing;
  int best = 0;
  std::string best_name;
  for (auto &kv : files) {
    const int j = which_dump(kv.second);
    listing += sfmt("%s%s=%s", listing.empty() ? "" : " ", kv.first.c_str(),
                    j ? sfmt("step %d", j).c_str()
                      : sfmt("incomplete (%zu bytes)", kv.second.size()).c_str());
    hash = fnv1a(hash, (uint64_t)j * 131u + kv.first.size());
    if (j > best) {
      best = j;
      best_name = kv.first;
    }
    if (j == 0 && kv.first != "restart.dump")
      fail("backup-corrupted",
           sfmt("process died %s file operation %ld (%s %s, dump after step "
                "%d, %d backups): backup file %s is not a complete dump; "
                "directory: %s",
                c.crash_variant == 0 ? "before" : c.crash_variant == 1 ? "after" : "in the middle of",
                k, op.kind.c_str(), op.path.c_str(), s, c.backups,
                kv.first.c_str(), listing.c_str()));
  }
  const char *vn = c.crash_variant == 0   ? "before"
                   : c.crash_variant == 1 ? "after"
                                          : "in the middle of";
  if (s >= 2) {
    ++st["deaths_with_a_previous_dump"];
    if (best < s - 1)
      fail("no-usable-dump",
           sfmt("process died %s file operation %ld (%s %s) of the dump "
                "after step %d with %d backups configured: no complete dump "
                "of step %d or %d is left; directory: %s",
                vn, k, op.kind.c_str(), op.path.c_str(), s, c.backups, s - 1,
                s, listing.c_str()));
  }

  // ---- restart from the newest complete file, in a child ----
  if (vclass.empty() && best > 0 && best < NA) {
    const std::string rdir = dir + "/after_crash";
    mkdir(rdir.c_str(), 0700);
    {
      std::ofstream o(rdir + "/restart.dump", std::ios::binary);
      o << files[best_name];
    }
    int fds[2];
    if (pipe(fds) == 0) {
      fflush(stdout);
      fflush(stderr);
      pid_t rp = fork();
      if (rp == 0) {
        close(fds[0]);
        {
          // CPU-time limit (a wall-clock limit would depend on the load of
          // the machine); wall-clock alarm only as a fallback
          struct itimerval it;
          memset(&it, 0, sizeof it);
          it.it_value.tv_sec = 120;
          setitimer(ITIMER_PROF, &it, nullptr);
          alarm(1800);
        }
        clock_set(1.7e9);
        RunResult R = run({"--restart", rdir, "--number-of-steps",
                           std::to_string(N)},
                          false);
        std::string msg = sfmt("%d %d %zu\n", R.finished ? 1 : 0, R.rc,
                               R.history.size());
        for (auto &h : R.history)
          msg += sfmt("%d %016llx %a %a\n", h.step,
                      (unsigned long long)h.digest, h.actual, h.time);
        if (write(fds[1], msg.data(), msg.size()) < 0) {
        }
        syscall(SYS_exit_group, 0);
      }
      close(fds[1]);
      std::string got;
      char buf[4096];
      ssize_t n;
      while ((n = read(fds[0], buf, sizeof buf)) > 0)
        got.append(buf, (size_t)n);
      close(fds[0]);
      int rstatus = 0;
      waitpid(rp, &rstatus, 0);
      ++st["restarts_after_death"];
      std::istringstream is(got);
      int fin = 0, rc = -1;
      size_t nh = 0;
      is >> fin >> rc >> nh;
      if (!(WIFEXITED(rstatus) && WEXITSTATUS(rstatus) == 0) || !fin ||
          rc != 0) {
        fail("restart-after-crash",
             sfmt("process died %s file operation %ld (%s) of the dump after "
                  "step %d; the run restarted from %s (complete dump of step "
                  "%d) did not finish (wait status 0x%x, finished %d, "
                  "returned %d)",
                  vn, k, op.kind.c_str(), s, best_name.c_str(), best, rstatus,
                  fin, rc));
      } else {
        int expect = best + 1;
        for (size_t i = 0; i < nh && vclass.empty(); ++i) {
          int step = 0;
          unsigned long long dg = 0;
          double actual = 0., time = 0.;
          std::string a1, a2;
          is >> step >> std::hex >> dg >> std::dec >> a1 >> a2;
          actual = strtod(a1.c_str(), nullptr);
          time = strtod(a2.c_str(), nullptr);
          const Ledger::StepRecord *a = nullptr;
          for (auto &h : A.history)
            if (h.step == step)
              a = &h;
          ++st["steps_compared_after_death"];
          if (step != expect || !a || a->digest != dg || a->actual != actual ||
              a->time != time) {
            fail("restart-after-crash",
                 sfmt("process died %s file operation %ld of the dump after "
                      "step %d; the run restarted from %s (complete dump of "
                      "step %d) executed step %d (expected %d) with digest "
                      "%016llx, the uninterrupted run has %016llx",
                      vn, k, s, best_name.c_str(), best, step, expect, dg,
                      a ? (unsigned long long)a->digest : 0ull));
          }
          hash = fnv1a(hash, dg);
          ++expect;
        }
        if (vclass.empty() && expect != NA + 1)
          fail("restart-after-crash",
               sfmt("run restarted from %s (complete dump of step %d) stopped "
                    "after step %d, the uninterrupted run has %d steps",
                    best_name.c_str(), best, expect - 1, NA));
      }
    }
  }
  // ---- second death: the restarted process dies during ITS first dump ----
  // The user restarts in place (--restart <output folder>, the default
  // work flow): restart.dump is the file the new process was started from,
  // i.e. the dump of the previous state when that process takes its first
  // dump.
  if (vclass.empty() && best > 0 && best < NA) {
    // put back what the first death left behind (the fault-free restart
    // above wrote its own dumps into the folder)
    remove_restart_files();
    for (auto &kv : files) {
      std::ofstream o(dir + "/" + kv.first, std::ios::binary);
      o << kv.second;
    }
    if (best_name != "restart.dump") {
      // what a user does after a death in the middle of a dump
      std::ofstream o(dir + "/restart.dump", std::ios::binary);
      o << files[best_name];
      ++st["restart_in_place_from_backup"];
    } else {
      ++st["restart_in_place_from_main_dump"];
    }
    long first_dump_ops = 0;
    for (auto &o : oplog)
      if (o.tag == 1)
        ++first_dump_ops;
    Rng r2(mix64((uint64_t)c.seed, 0xc14));
    const long k2 = (long)r2.below((uint64_t)std::max(1l, first_dump_ops));
    const int variant2 = (int)r2.below(3);
    fflush(stdout);
    fflush(stderr);
    pid_t p2 = fork();
    if (p2 == 0) {
      clock_set(1.7e9);
      fsim::set_tag(0);
      fsim::arm(k2, variant2, c.crash_torn);
      RunResult C = run({"--restart", dir, "--number-of-steps",
                         std::to_string(N)},
                        false);
      syscall(SYS_exit_group, C.finished ? 3 : 4);
    }
    int st2 = 0;
    waitpid(p2, &st2, 0);
    if (WIFEXITED(st2) && WEXITSTATUS(st2) == 137) {
      ++st["process_deaths_after_restart"];
      std::map< std::string, std::string > f2 = restart_files();
      std::string l2;
      int best2 = 0;
      for (auto &kv : f2) {
        const int j = which_dump(kv.second);
        l2 += sfmt("%s%s=%s", l2.empty() ? "" : " ", kv.first.c_str(),
                   j ? sfmt("step %d", j).c_str()
                     : sfmt("incomplete (%zu bytes)", kv.second.size()).c_str());
        hash = fnv1a(hash, (uint64_t)j * 137u + kv.first.size());
        best2 = std::max(best2, j);
      }
      if (best2 < best)
        fail("no-usable-dump",
             sfmt("a run restarted in place from the complete dump of step %d "
                  "(%d backups configured) died %s file operation %ld of its "
                  "first dump: no complete dump of step %d or later is left; "
                  "directory before the restart: %s; afterwards: %s",
                  best, c.backups,
                  variant2 == 0   ? "before"
                  : variant2 == 1 ? "after"
                                  : "in the middle of",
                  k2, best, listing.c_str(), l2.c_str()));
    } else {
      ++st["second_death_not_reached"];
    }
  }
  clock_enable(false);
  out.vclass = vclass;
  out.message = message;
  out.hash = hash;
  out.nontrivial = s >= 2;
  Json sj = Json::object();
  for (auto &kv : st)
    sj[kv.first] = kv.second;
  sj["hydro_steps_uninterrupted"] = NA;
  out.stats = sj;
  out.signature = Json::object();
  return out;
}

} // namespace

int main(int argc, char **argv) {
  ERhdEngine e;
  return check_main(argc, argv, e);
}
