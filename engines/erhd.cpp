// E-RHD: whole TaskBasedRadiationHydrodynamicsSimulation::do_simulation runs
// under the simulator. Serves C07 (task graph), C10 (layout / thread
// independence against a sequential reference), C04 (conservation), selected
// by VERIF_PROPERTY.
#include "rhd_model.hpp"

#include "CommandLineParser.hpp"
#include "TaskBasedRadiationHydrodynamicsSimulation.hpp"
#include "Timer.hpp"

#include <sys/stat.h>
#include <unistd.h>

using namespace detsim;
using namespace rhd;

namespace {

const char *C07_CLASSES[] = {"task-twice",     "task-missing", "dependency-order",
                             "overlap",        "lock-not-held", "leftover-tasks",
                             "task-table",     "nontermination", nullptr};
const char *C10_CLASSES[] = {"layout-dependence", "not-reproducible", nullptr};
const char *C04_CLASSES[] = {"mass-not-conserved", "momentum-not-conserved",
                             "energy-not-conserved", "unphysical-state",
                             nullptr};

bool in_list(const char **list, const std::string &s) {
  for (int k = 0; list[k]; ++k)
    if (s == list[k])
      return true;
  return false;
}

// run do_simulation with the given extra command line arguments
int run_rhd(const std::string &paramfile, int threads,
            const std::vector< std::string > &extra) {
  CommandLineParser parser("CMacIonize");
  parser.add_required_option< std::string >("params", 'p', "parameter file");
  parser.add_option("threads", 't', "threads", COMMANDLINEOPTION_INTARGUMENT,
                    "1");
  parser.add_option("dry-run", 'n', "dry run", COMMANDLINEOPTION_NOARGUMENT,
                    "false");
  TaskBasedRadiationHydrodynamicsSimulation::add_command_line_parameters(
      parser);
  std::vector< std::string > args;
  args.push_back("CMacIonize");
  args.push_back("--params");
  args.push_back(paramfile);
  args.push_back("--threads");
  args.push_back(std::to_string(threads));
  for (auto &e : extra)
    args.push_back(e);
  std::vector< char * > argv;
  for (auto &a : args)
    argv.push_back(&a[0]);
  parser.parse_arguments((int)argv.size(), argv.data());
  Timer programtimer;
  return TaskBasedRadiationHydrodynamicsSimulation::do_simulation(
      parser, true, programtimer, nullptr);
}

class ERhdEngine : public Engine {
public:
  std::string prop;
  ERhdEngine() {
    const char *p = getenv("VERIF_PROPERTY");
    prop = p ? p : "C07";
  }
  std::string property() const { return prop; }
  void budget(const std::string &tier, uint64_t &runs, double &seconds) const {
    if (tier == "quick") {
      runs = 100000;
      seconds = 100;
    } else {
      runs = 10000000;
      seconds = 1700;
    }
  }
  int watchdog_seconds() const { return 240; }
  void setup() {
    std::string d = scratch_dir();
    if (chdir(d.c_str())) {
    }
  }

  Json generate(uint64_t run_seed, const std::string &tier, uint64_t index) {
    Rng r(run_seed);
    Cfg c;
    const bool thorough = tier == "thorough";
    c.dyadic = r.chance(0.5);
    for (int k = 0; k < 3; ++k) {
      static const int subs[] = {1, 1, 2, 2, 2, 3, 4};
      static const int cells[] = {1, 2, 2, 3, 4};
      c.nsub[k] = subs[r.below(thorough ? 7 : 6)];
      c.ncell[k] = c.nsub[k] * cells[r.below(thorough ? 5 : 4)];
      if (c.ncell[k] < 2)
        c.ncell[k] = 2 * c.nsub[k];
    }
    const double pc = 3.0856775814913673e16;
    if (c.dyadic) {
      for (int k = 0; k < 3; ++k) {
        c.sides[k] = std::ldexp(1., 55 + (int)r.range(0, 1));
        c.anchor[k] = -std::ldexp((double)r.range(0, 4), 53);
      }
    } else {
      for (int k = 0; k < 3; ++k) {
        c.sides[k] = pc * r.uniform(0.5, 3.);
        c.anchor[k] = c.sides[k] * r.uniform(-1., 1.);
      }
    }
    // boundaries: all eight periodicity combinations
    const int pmask = r.chance(0.3) ? 7 : (int)r.below(8);
    for (int k = 0; k < 3; ++k) {
      if ((pmask >> k) & 1) {
        c.bc_lo[k] = c.bc_hi[k] = 0;
      } else if (prop == "C04" || r.chance(0.5)) {
        c.bc_lo[k] = c.bc_hi[k] = 1; // reflective
      } else {
        c.bc_lo[k] = (int)r.range(1, 3);
        c.bc_hi[k] = (int)r.range(1, 3);
      }
    }
    static const double gammas[] = {5. / 3., 1.4, 1.0001, 2., 1.1};
    c.gamma = gammas[r.below(5)];
    c.threads = (int)r.range(1, thorough ? 16 : 8);
    if (index % 13 == 5)
      c.threads = 1;
    c.steps = (int)r.range(2, 4);
    // initial state: background + blocks (smooth, discontinuous, near vacuum)
    c.density = std::pow(10., r.uniform(6., 10.));
    c.temperature = std::pow(10., r.uniform(1.5, 4.));
    const double kB = 1.38064852e-23, mp = 1.6726219e-27;
    double tmax = c.temperature, vmax = 0.;
    const double cs0 = std::sqrt(c.gamma * kB * c.temperature / mp);
    for (int k = 0; k < 3; ++k) {
      c.v0[k] = r.chance(0.5) ? 0. : cs0 * r.uniform(-1.5, 1.5);
      vmax = std::max(vmax, std::fabs(c.v0[k]));
    }
    const int nb = (int)r.range(0, 3);
    for (int i = 0; i < nb; ++i) {
      Block b;
      for (int k = 0; k < 3; ++k) {
        b.f[k] = r.uniform(0., 1.);
        b.s[k] = r.uniform(0.15, 0.8);
        b.v[k] = r.chance(0.4) ? 0. : cs0 * r.uniform(-2., 2.);
        vmax = std::max(vmax, std::fabs(b.v[k]));
      }
      b.type = (int)r.below(3);
      static const double fac[] = {1e-8, 1e-3, 0.1, 0.5, 2., 10., 1000.};
      b.density = c.density * fac[r.below(7)];
      b.temperature = c.temperature * std::pow(10., r.uniform(-1., 1.5));
      tmax = std::max(tmax, b.temperature);
      c.blocks.push_back(b);
    }
    // time step: a fraction of the stability limit estimated from the
    // generated state (sound speed of fully ionised gas as upper bound)
    double cellmin = 1e300;
    for (int k = 0; k < 3; ++k)
      cellmin = std::min(cellmin, c.sides[k] / c.ncell[k]);
    const double csmax = std::sqrt(c.gamma * 2. * kB * tmax / mp);
    const double dt_stable = 0.2 * cellmin / (csmax + vmax + 1e-30);
    static const double fr[] = {1., 0.5, 0.25, 1. / 16., 1. / 64.};
    if (prop == "C10" || r.chance(0.6)) {
      c.dt = dt_stable * fr[r.below(5)];
      c.total_time = c.dt * 64.;
    } else {
      c.dt = 0.;
      c.total_time = dt_stable * 64.;
    }
    c.cfl = 0.2;
    c.seed = (int)r.range(1, 100000);
    c.sched = Sched::draw(r, 3000000ull);
    c.sched.total_cap = 80000000ull;
    return c.to_json();
  }

  Outcome execute(const Json &cj) {
    Outcome out;
    Cfg c = Cfg::from_json(cj);
    const std::string dir = scratch_dir();
    const std::string pf = c.write_files(dir);
    Ledger L;
    L.lay.init(c);
    L.want_reference = (prop == "C10");
    L.want_conservation = (prop == "C04");
    run_begin(c.sched, &L);
    int rc = -1;
    bool finished = guarded([&]() {
      std::vector< std::string > extra;
      extra.push_back("--number-of-steps");
      extra.push_back(std::to_string(c.steps));
      rc = run_rhd(pf, c.threads, extra);
    });
    RunStats rs = run_end();

    std::string vclass, message;
    if (L.failed) {
      vclass = L.violation.vclass;
      message = L.violation.message;
    } else if (!finished && rs.inconclusive) {
      out.notes.push_back("run abandoned as inconclusive (total point cap)");
    } else if (!finished) {
      vclass = "nontermination";
      message = sfmt("hydro step %d did not end within the step budget (fair "
                     "phase included): layout %dx%dx%d, boundaries "
                     "x:%d/%d y:%d/%d z:%d/%d, %d threads",
                     L.step, c.nsub[0], c.nsub[1], c.nsub[2], c.bc_lo[0],
                     c.bc_hi[0], c.bc_lo[1], c.bc_hi[1], c.bc_lo[2], c.bc_hi[2],
                     c.threads);
    } else if (rc != 0) {
      vclass = "bad-exit";
      message = sfmt("do_simulation returned %d", rc);
    } else if ((int)L.history.size() != c.steps &&
               !(L.history.size() > 0 && !L.history.back().has_next)) {
      vclass = "task-missing";
      message = sfmt("%zu of %d hydro steps reported an end record",
                     L.history.size(), c.steps);
    }
    if (!vclass.empty()) {
      const char **mine = prop == "C10"   ? C10_CLASSES
                          : prop == "C04" ? C04_CLASSES
                                          : C07_CLASSES;
      if (in_list(mine, vclass)) {
        out.vclass = vclass;
        out.message = message;
      } else {
        out.notes.push_back("violation class '" + vclass +
                            "' seen (decided by another property's check)");
      }
    }
    out.restart_worker = !finished;
    out.hash = fnv1a(rs.hash, L.ledger_hash);
    out.executed = rs.executed;
    out.nontrivial = rs.switches > 0 && c.threads > 1;
    Json st = Json::object();
    st["points"] = (long long)rs.points;
    st["switches"] = (long long)rs.switches;
    st["regions"] = (long long)rs.regions;
    st["fair_phase_runs"] = rs.fair_phase ? 1 : 0;
    st["max_points_per_run"] = (long long)rs.points;
    for (auto &kv : L.stats) {
      if (kv.first.compare(0, 4, "max_") == 0)
        st[kv.first] = kv.second;
      else
        st[kv.first] = kv.second;
    }
    for (auto &kv : rs.probes)
      st["probe_" + kv.first] = (long long)kv.second;
    st[sfmt("policy_%d", c.sched.policy)] = 1;
    st[sfmt("threads_%02d", c.threads)] = 1;
    int nper = 0, single_periodic = 0;
    for (int k = 0; k < 3; ++k) {
      if (c.periodic(k)) {
        ++nper;
        if (c.nsub[k] == 1)
          single_periodic = 1;
      }
    }
    st[sfmt("periodic_axes_%d", nper)] = 1;
    st["runs_with_periodic_axis_of_one_subgrid"] = single_periodic;
    out.stats = st;
    Json sig = Json::object();
    sig["periodic_axis_with_one_subgrid"] = single_periodic != 0;
    bool reflecting = false;
    for (int k = 0; k < 3; ++k)
      if (!c.periodic(k) && c.bc_lo[k] == 1)
        reflecting = true;
    sig["reflecting_wall"] = reflecting;
    out.signature = sig;
    return out;
  }

  std::vector< Json > shrink(const Json &cj) {
    std::vector< Json > v;
    Cfg c = Cfg::from_json(cj);
    auto push = [&](const Cfg &n) { v.push_back(n.to_json()); };
    if (c.steps > 1) {
      Cfg n = c;
      n.steps = 1;
      push(n);
      n = c;
      n.steps = c.steps - 1;
      push(n);
    }
    if (c.threads > 1) {
      Cfg n = c;
      n.threads = 1;
      push(n);
      n = c;
      n.threads = c.threads - 1;
      push(n);
    }
    for (size_t k = 0; k < c.blocks.size(); ++k) {
      Cfg n = c;
      n.blocks.erase(n.blocks.begin() + (long)k);
      push(n);
    }
    for (int k = 0; k < 3; ++k) {
      if (c.nsub[k] > 1) {
        Cfg n = c;
        n.nsub[k] = c.nsub[k] == 3 ? 1 : c.nsub[k] / 2;
        if (n.ncell[k] % n.nsub[k] == 0)
          push(n);
      }
      if (c.ncell[k] / c.nsub[k] > 2 && (c.ncell[k] / 2) % c.nsub[k] == 0) {
        Cfg n = c;
        n.ncell[k] = c.ncell[k] / 2;
        push(n);
      }
      if (c.v0[k] != 0.) {
        Cfg n = c;
        n.v0[k] = 0.;
        push(n);
      }
    }
    return v;
  }

  void describe(Json &cov, Json &assumptions) const {
    std::string what;
    if (prop == "C07")
      what = "the start/stop trace of every hydro task (hook H7) is checked "
             "against a task graph derived from layout and boundary types "
             "alone: every expected task exactly once per step, no task "
             "before all tasks it depends on have stopped, no two running "
             "tasks touch the same subgrid (the start trace point is itself a "
             "scheduling point), the executing thread holds the lock of every "
             "subgrid its task touches, the step terminates (progress-based "
             "budget, second half fair), counters and queues are empty "
             "afterwards, and the code's own task tables (children, parent "
             "counters after reset) describe the same graph";
    else if (prop == "C10")
      what = "after every step the cell states are compared, cell by cell in "
             "global cell order, with a plain sequential execution of the "
             "scheme's sweeps on one undivided block started from the same "
             "state (fixed time step); tolerance 1e-11 of the local scale "
             "(largest magnitude over the cell and its six neighbours, at "
             "least 1e-3 of the grid maximum)";
    else
      what = "totals of mass, momentum and energy (long double, compensated "
             "summation) are compared before and after every step: all five "
             "in periodic boxes, mass and energy in boxes with reflecting "
             "walls, within 1e-12 of the totals, unless a positivity clamp "
             "fired; after every step all masses, energies, densities and "
             "pressures must be finite and non-negative";
    cov["rule"] =
        "each run = one whole task-based RHD simulation (do_simulation, pure "
        "hydro, 2-4 steps) from a generated parameter file: 1-4 subgrids per "
        "axis, all eight periodicity combinations with reflective / inflow / "
        "outflow walls, adiabatic index in {5/3, 1.4, 1.0001, 2, 1.1}, "
        "background plus 0-3 blocks with density contrasts 1e-8..1e3, "
        "temperature contrasts and velocities up to Mach 2, fixed or "
        "CFL-controlled step, 1-16 simulated threads, one seeded schedule; " +
        what +
        ". distinct = distinct event-log hash; non-trivial = >=2 threads and "
        ">=1 context switch";
    Json comp = Json::object();
    comp["real"] = "whole RHD engine from /repo/src: parameter parsing, grid "
                   "creator, hydro sweeps, HLLC Riemann solver, boundaries, "
                   "time line, task tables, queues, restart manager";
    comp["stub"] = "libgomp (detsim fibers), rdtsc, MPI disabled";
    cov["components"] = comp;
    cov["fault_kinds"] = "preemption at every AtomicValue operation and at "
                         "every task start (policies uniform/burst/pct/rr), "
                         "task stealing";
    assumptions.push("sequential consistency at the granularity of "
                     "AtomicValue operations");
    if (prop == "C10")
      assumptions.push("the reference reuses the code's sweep functions in "
                       "sequential order on one block (errors common to both "
                       "sides belong to C04/C05)");
  }
};

} // namespace

int main(int argc, char **argv) {
  ERhdEngine e;
  return check_main(argc, argv, e);
}
