// Shared parts of the whole-simulation RHD engine (E-RHD): configuration,
// parameter file, the listener with the task-graph oracle (C07), the
// conservation oracle (C04), the sequential reference sweep (C10), the
// per-step digest (C09) and the time line tuples (C19 riding along).
#ifndef RHD_MODEL_HPP
#define RHD_MODEL_HPP

#include "../detsim/driver.hpp"

#include "DensitySubGridCreator.hpp"
#include "Hydro.hpp"
#include "HydroBoundaryManager.hpp"
#include "HydroDensitySubGrid.hpp"
#include "Task.hpp"
#include "TaskQueue.hpp"
#include "ThreadSafeVector.hpp"
#include "TravelDirections.hpp"
#include "VerifHooks.hpp"

#include <cmath>
#include <cstdarg>
#include <fstream>
#include <map>
#include <memory>
#include <set>
#include <sstream>

namespace rhd {

using namespace detsim;

inline std::string sfmt(const char *f, ...) {
  char buf[1024];
  va_list ap;
  va_start(ap, f);
  vsnprintf(buf, sizeof buf, f, ap);
  va_end(ap);
  return buf;
}

struct Block {
  double f[3], s[3]; // centre and sides as fractions of the box
  int type;          // 0 cube 1 sphere 2 rhombus
  double density, temperature, v[3];
};

struct Cfg {
  int ncell[3] = {8, 8, 8};
  int nsub[3] = {2, 2, 2};
  int bc_lo[3] = {1, 1, 1}, bc_hi[3] = {1, 1, 1}; // 0 periodic 1 reflective 2 inflow 3 outflow
  bool dyadic = true;
  double anchor[3] = {0, 0, 0}, sides[3] = {1, 1, 1};
  double gamma = 5. / 3.;
  int threads = 2;
  int steps = 3;
  double dt = 0.;          // fixed step (0 = CFL controlled)
  double total_time = 1.;  // s
  double cfl = 0.2;
  double density = 1e8, temperature = 500., v0[3] = {0, 0, 0};
  std::vector< Block > blocks;
  int backups = 1;
  bool dump_every_step = false;
  bool mask = false, turbulence = false, live_output = false;
  bool gravity = false, cooling = false, restart_midway = false;
  // threads of the run restarted midway (0: as the first run)
  int restart_threads = 0;
  // 'output sources: true' for the distributions that keep a source log
  // (UniformRandom, DiscPatch, Caproni): extra bookkeeping in the dump
  bool source_log = false;
  // sources that live for about two steps and a distribution that is
  // updated every half step (otherwise: 0.3 and 0.05 of the total time,
  // i.e. hardly any birth or death within the 2-8 steps of a run)
  bool fast_sources = false;
  // --task-plot-rhd N: the photon tasks of the first N steps are kept (not
  // given back) and written to tasks_NN.txt at the end of the step. The task
  // pool must then hold one task per buffer hand-over of the whole step: only
  // generated for boxes without periodic axes (a packet in a periodic box
  // wraps around until it is absorbed, the number of hand-overs has no bound)
  int task_plot_rhd = 0;
  int live_mask = 7; // which live outputs are switched on
  int source_type = 0; // 0 SingleStar, 1 AsciiFile, 2 UniformRandom, 3 SingleSupernova, 4 DiscPatch, 5 Caproni (positions on galactic scales: only without radiation)
  bool feedback = false;
  int snap_mode = 0;      // 0: start/end only, 1: every 1.5 steps, 2: every 0.75
  int first_snapshot = 0; // index of the first snapshot written
  int rad_mode = 0;       // 0: radiation every step, 1: every 2.5 steps
  double max_neutral = -1.;
  bool diffuse_rhd = false;
  int copy_level = 0; // source copy level of the radiation step
  // C01 RHD part: reduced buffer / task pools (see ion::Cfg::tight_pools)
  bool tight_pools = false;
  int pool_slack = 0; // see ion::Cfg::pool_slack
  long nbuffers = 0, ntasks = 0; // 0 = capacities that cannot be exhausted
  // C14 (system level): where the process dies during a restart dump
  double crash_frac = 0.;  // fraction of the numbered file operations
  int crash_variant = 0;   // 0 before, 1 after, 2 torn write
  double crash_torn = 0.5; // fraction of a torn write that reaches the file
  bool radiation = false;
  long packets = 200;
  int seed = 42;
  int writer = 0;
  int fields_mask = 0; // non-default output fields switched on
  Sched sched;

  bool periodic(int k) const { return bc_lo[k] == 0; }

  Json to_json() const {
    Json j = Json::object();
    auto ai = [](const int *v) {
      Json a = Json::array();
      for (int k = 0; k < 3; ++k)
        a.push(v[k]);
      return a;
    };
    auto ad = [](const double *v) {
      Json a = Json::array();
      for (int k = 0; k < 3; ++k)
        a.push(dbl_bits(v[k]));
      return a;
    };
    j["ncell"] = ai(ncell);
    j["nsub"] = ai(nsub);
    j["bc_lo"] = ai(bc_lo);
    j["bc_hi"] = ai(bc_hi);
    j["dyadic"] = dyadic;
    j["anchor"] = ad(anchor);
    j["sides"] = ad(sides);
    j["gamma"] = dbl_bits(gamma);
    j["threads"] = threads;
    j["steps"] = steps;
    j["dt"] = dbl_bits(dt);
    j["total_time"] = dbl_bits(total_time);
    j["cfl"] = dbl_bits(cfl);
    j["density"] = dbl_bits(density);
    j["temperature"] = dbl_bits(temperature);
    j["v0"] = ad(v0);
    Json b = Json::array();
    for (auto &bl : blocks) {
      Json e = Json::object();
      e["f"] = ad(bl.f);
      e["s"] = ad(bl.s);
      e["type"] = bl.type;
      e["density"] = dbl_bits(bl.density);
      e["temperature"] = dbl_bits(bl.temperature);
      e["v"] = ad(bl.v);
      b.push(e);
    }
    j["blocks"] = b;
    j["backups"] = backups;
    j["dump_every_step"] = dump_every_step;
    j["mask"] = mask;
    j["turbulence"] = turbulence;
    j["live_output"] = live_output;
    j["gravity"] = gravity;
    j["cooling"] = cooling;
    j["restart_midway"] = restart_midway;
    j["restart_threads"] = restart_threads;
    j["source_log"] = source_log;
    j["fast_sources"] = fast_sources;
    j["task_plot_rhd"] = task_plot_rhd;
    j["live_mask"] = live_mask;
    j["source_type"] = source_type;
    j["feedback"] = feedback;
    j["snap_mode"] = snap_mode;
    j["first_snapshot"] = first_snapshot;
    j["rad_mode"] = rad_mode;
    j["max_neutral"] = dbl_bits(max_neutral);
    j["diffuse_rhd"] = diffuse_rhd;
    j["copy_level"] = copy_level;
    j["tight_pools"] = tight_pools;
    j["pool_slack"] = pool_slack;
    j["nbuffers"] = (long long)nbuffers;
    j["ntasks"] = (long long)ntasks;
    j["crash_frac"] = dbl_bits(crash_frac);
    j["crash_variant"] = crash_variant;
    j["crash_torn"] = dbl_bits(crash_torn);
    j["radiation"] = radiation;
    j["packets"] = (long long)packets;
    j["seed"] = seed;
    j["writer"] = writer;
    j["fields_mask"] = fields_mask;
    j["sched"] = sched.to_json();
    return j;
  }

  static Cfg from_json(const Json &j) {
    Cfg c;
    auto gi = [&](const char *k, int *v) {
      for (int i = 0; i < 3; ++i)
        v[i] = (int)j.at(k).a.at((size_t)i).as_int();
    };
    auto gd = [](const Json &a, double *v) {
      for (int i = 0; i < 3; ++i)
        v[i] = bits_dbl(a.a.at((size_t)i).as_string());
    };
    gi("ncell", c.ncell);
    gi("nsub", c.nsub);
    gi("bc_lo", c.bc_lo);
    gi("bc_hi", c.bc_hi);
    c.dyadic = j.at("dyadic").as_bool(true);
    gd(j.at("anchor"), c.anchor);
    gd(j.at("sides"), c.sides);
    c.gamma = bits_dbl(j.at("gamma").as_string());
    c.threads = (int)j.at("threads").as_int(1);
    c.steps = (int)j.at("steps").as_int(2);
    c.dt = bits_dbl(j.at("dt").as_string());
    c.total_time = bits_dbl(j.at("total_time").as_string());
    c.cfl = bits_dbl(j.at("cfl").as_string());
    c.density = bits_dbl(j.at("density").as_string());
    c.temperature = bits_dbl(j.at("temperature").as_string());
    gd(j.at("v0"), c.v0);
    for (auto &e : j.at("blocks").a) {
      Block b;
      gd(e.at("f"), b.f);
      gd(e.at("s"), b.s);
      b.type = (int)e.at("type").as_int();
      b.density = bits_dbl(e.at("density").as_string());
      b.temperature = bits_dbl(e.at("temperature").as_string());
      gd(e.at("v"), b.v);
      c.blocks.push_back(b);
    }
    c.backups = (int)j.at("backups").as_int(1);
    c.dump_every_step = j.at("dump_every_step").as_bool();
    c.mask = j.at("mask").as_bool();
    c.turbulence = j.at("turbulence").as_bool();
    c.live_output = j.at("live_output").as_bool();
    c.gravity = j.at("gravity").as_bool();
    c.cooling = j.at("cooling").as_bool();
    c.restart_midway = j.at("restart_midway").as_bool();
    c.restart_threads = (int)j.at("restart_threads").as_int(0);
    c.source_log = j.at("source_log").as_bool();
    c.fast_sources = j.at("fast_sources").as_bool();
    c.task_plot_rhd = (int)j.at("task_plot_rhd").as_int(0);
    c.live_mask = (int)j.at("live_mask").as_int(7);
    c.source_type = (int)j.at("source_type").as_int(0);
    c.feedback = j.at("feedback").as_bool();
    c.snap_mode = (int)j.at("snap_mode").as_int(0);
    c.first_snapshot = (int)j.at("first_snapshot").as_int(0);
    c.rad_mode = (int)j.at("rad_mode").as_int(0);
    c.max_neutral = j.has("max_neutral") ? bits_dbl(j.at("max_neutral").as_string()) : -1.;
    c.diffuse_rhd = j.at("diffuse_rhd").as_bool();
    c.copy_level = (int)j.at("copy_level").as_int(0);
    c.tight_pools = j.at("tight_pools").as_bool();
    c.pool_slack = (int)j.at("pool_slack").as_int(0);
    c.nbuffers = j.at("nbuffers").as_int(0);
    c.ntasks = j.at("ntasks").as_int(0);
    c.crash_frac = j.has("crash_frac") ? bits_dbl(j.at("crash_frac").as_string()) : 0.;
    c.crash_variant = (int)j.at("crash_variant").as_int(0);
    c.crash_torn = j.has("crash_torn") ? bits_dbl(j.at("crash_torn").as_string()) : 0.5;
    c.radiation = j.at("radiation").as_bool();
    c.packets = j.at("packets").as_int(200);
    c.seed = (int)j.at("seed").as_int(42);
    c.writer = (int)j.at("writer").as_int(0);
    c.fields_mask = (int)j.at("fields_mask").as_int(0);
    c.sched = Sched::from_json(j.at("sched"));
    return c;
  }

  int total_subgrids() const { return nsub[0] * nsub[1] * nsub[2]; }

  std::string vec(const double *v, const char *unit) const {
    return sfmt("[%.17g %s, %.17g %s, %.17g %s]", v[0], unit, v[1], unit, v[2],
                unit);
  }

  std::string write_files(const std::string &dir,
                          const std::string &name = "rhd.param") const {
    static const char *bcn[] = {"periodic", "reflective", "inflow", "outflow"};
    std::ostringstream o;
    o << "SimulationBox:\n  anchor: " << vec(anchor, "m") << "\n  sides: "
      << vec(sides, "m") << "\n  periodicity: ["
      << (periodic(0) ? "true" : "false") << ", "
      << (periodic(1) ? "true" : "false") << ", "
      << (periodic(2) ? "true" : "false") << "]\n";
    o << "DensityGrid:\n  type: Cartesian\n"
      << sfmt("  number of cells: [%d, %d, %d]\n", ncell[0], ncell[1],
              ncell[2]);
    o << "DensitySubGridCreator:\n"
      << sfmt("  number of subgrids: [%d, %d, %d]\n", nsub[0], nsub[1], nsub[2])
      << "  periodicity: [" << (periodic(0) ? "true" : "false") << ", "
      << (periodic(1) ? "true" : "false") << ", "
      << (periodic(2) ? "true" : "false") << "]\n";
    o << "DensityFunction:\n  type: BlockSyntax\n  filename: " << dir
      << "/blocks.yml\n";
    {
      std::ofstream b(dir + "/blocks.yml");
      b << "number of blocks: " << blocks.size() + 1 << "\n";
      double centre[3], big[3];
      for (int k = 0; k < 3; ++k) {
        centre[k] = anchor[k] + 0.5 * sides[k];
        big[k] = 4. * sides[k];
      }
      b << "block[0]:\n  origin: " << vec(centre, "m") << "\n  sides: "
        << vec(big, "m") << "\n  type: cube\n"
        << sfmt("  number density: %.17g m^-3\n", density)
        << sfmt("  initial temperature: %.17g K\n", temperature)
        << "  neutral fraction H: 1.\n"
        << "  initial velocity: " << vec(v0, "m s^-1") << "\n";
      static const char *types[] = {"cube", "sphere", "rhombus"};
      for (size_t i = 0; i < blocks.size(); ++i) {
        const Block &bl = blocks[i];
        double org[3], sd[3];
        for (int k = 0; k < 3; ++k) {
          org[k] = anchor[k] + bl.f[k] * sides[k];
          sd[k] = bl.s[k] * sides[k];
        }
        b << "block[" << i + 1 << "]:\n  origin: " << vec(org, "m")
          << "\n  sides: " << vec(sd, "m") << "\n  type: " << types[bl.type]
          << "\n"
          << sfmt("  number density: %.17g m^-3\n", bl.density)
          << sfmt("  initial temperature: %.17g K\n", bl.temperature)
          << "  neutral fraction H: 1.\n"
          << "  initial velocity: " << vec(bl.v, "m s^-1") << "\n";
      }
    }
    o << "Hydro:\n" << sfmt("  polytropic index: %.17g\n", gamma);
    static const char *ax[] = {"x", "y", "z"};
    o << "HydroBoundaryManager:\n";
    for (int k = 0; k < 3; ++k) {
      o << "  boundary " << ax[k] << " high: " << bcn[bc_hi[k]] << "\n";
      o << "  boundary " << ax[k] << " low: " << bcn[bc_lo[k]] << "\n";
    }
    double centre[3];
    for (int k = 0; k < 3; ++k)
      centre[k] = anchor[k] + 0.53 * sides[k];
    if (source_type == 1) {
      o << "PhotonSourceDistribution:\n  type: AsciiFile\n  filename: " << dir
        << "/sources.yml\n";
      std::ofstream sf(dir + "/sources.yml");
      double p2[3];
      for (int k = 0; k < 3; ++k)
        p2[k] = anchor[k] + 0.21 * sides[k];
      sf << "number of sources: 2\nsource[0]:\n  position: " << vec(centre, "m")
         << "\n  luminosity: 1.e46 s^-1\nsource[1]:\n  position: "
         << vec(p2, "m") << "\n  luminosity: 3.e45 s^-1\n";
    } else if (source_type == 2) {
      o << "PhotonSourceDistribution:\n  type: UniformRandom\n"
        << sfmt("  source lifetime: %.17g s\n", (fast_sources ? 1. / 32. : 0.3) * total_time)
        << "  source luminosity: 1.e46 s^-1\n  number of sources: 3\n"
        << "  box anchor: " << vec(anchor, "m") << "\n  box sides: "
        << vec(sides, "m") << "\n  random seed: 42\n"
        << sfmt("  update interval: %.17g s\n", (fast_sources ? 1. / 128. : 0.05) * total_time)
        << "  starting time: 0. s\n  output sources: "
        << (source_log ? "true" : "false") << "\n";
    } else if (source_type == 5) {
      o << "PhotonSourceDistribution:\n  type: Caproni\n"
        << "  number function norm: 0.05\n  UV luminosity norm: 1.\n"
        << "  random seed: 44\n"
        << sfmt("  update interval: %.17g s\n", (fast_sources ? 1. / 128. : 0.05) * total_time)
        << "  starting time: 0. s\n  boost factor: 1.\n"
        << "  output sources: " << (source_log ? "true" : "false") << "\n";
    } else if (source_type == 4) {
      o << "PhotonSourceDistribution:\n  type: DiscPatch\n"
        << sfmt("  source lifetime: %.17g s\n", (fast_sources ? 1. / 32. : 0.3) * total_time)
        << "  source luminosity: 1.e46 s^-1\n  average number of sources: 3\n"
        << sfmt("  anchor x: %.17g m\n  sides x: %.17g m\n", anchor[0] + 0.1 * sides[0], 0.8 * sides[0])
        << sfmt("  anchor y: %.17g m\n  sides y: %.17g m\n", anchor[1] + 0.1 * sides[1], 0.8 * sides[1])
        << sfmt("  origin z: %.17g m\n  scaleheight z: %.17g m\n", anchor[2] + 0.5 * sides[2], 0.04 * sides[2])
        << "  random seed: 43\n"
        << sfmt("  update interval: %.17g s\n", (fast_sources ? 1. / 128. : 0.05) * total_time)
        << "  starting time: 0. s\n  output sources: "
        << (source_log ? "true" : "false") << "\n";
    } else if (source_type == 3) {
      o << "PhotonSourceDistribution:\n  type: SingleSupernova\n  position: "
        << vec(centre, "m") << "\n"
        << sfmt("  lifetime: %.17g s\n",
                dt > 0. ? 2.5 * dt : 0.03 * total_time)
        << "  luminosity: 1.e46 s^-1\n"
        << sfmt("  energy: %.17g J\n",
                density * 1.67e-27 * sides[0] * sides[1] * sides[2] * 8.3e3 *
                    temperature * 0.05)
        << "\n";
    } else {
      o << "PhotonSourceDistribution:\n  type: SingleStar\n  position: "
        << vec(centre, "m") << "\n  luminosity: 1.e46 s^-1\n";
    }
    o << "PhotonSourceSpectrum:\n  type: Monochromatic\n  frequency: 13.6 eV\n";
    o << "ContinuousPhotonSource:\n  type: None\n";
    if (radiation) {
      // realistic atomic data when the radiation step runs (all-zero metal
      // rates would give 0/0 metal fractions)
      o << "CrossSections:\n  type: Verner\n";
      o << "RecombinationRates:\n  type: Verner\n";
    } else {
      o << "CrossSections:\n  type: FixedValue\n  hydrogen_0: 6.3e-18 cm^2\n";
      o << "RecombinationRates:\n  type: FixedValue\n  hydrogen_1: 4.e-13 "
           "cm^3 s^-1\n";
    }
    o << "TemperatureCalculator:\n  do temperature calculation: false\n";
    if (diffuse_rhd && radiation)
      o << "DiffuseReemissionHandler:\n  type: FixedValue\n  reemission "
           "probability: 0.364\n";
    o << "TaskBasedRadiationHydrodynamicsSimulation:\n";
    o << sfmt("  total time: %.17g s\n", total_time);
    if (dt > 0.) {
      o << sfmt("  maximum timestep: %.17g s\n", dt);
      o << sfmt("  minimum timestep: %.17g s\n", dt * 1e-12);
    } else {
      o << sfmt("  maximum timestep: %.17g s\n", total_time);
      o << sfmt("  minimum timestep: %.17g s\n", total_time * 1e-14);
    }
    // snapshots: only at the start and the end (0), or every few steps
    if (snap_mode == 0)
      o << sfmt("  snapshot time: %.17g s\n", total_time * 4.);
    else
      o << sfmt("  snapshot time: %.17g s\n",
                (dt > 0. ? dt : total_time / 64.) * (snap_mode == 1 ? 1.5 : 0.75));
    if (first_snapshot > 0)
      o << "  first snapshot: " << first_snapshot << "\n";
    if (rad_mode == 1)
      o << sfmt("  radiation time: %.17g s\n",
                (dt > 0. ? dt : total_time / 64.) * 2.5);
    if (max_neutral > 0.)
      o << sfmt("  maximum neutral fraction: %.17g\n", max_neutral);
    if (diffuse_rhd && radiation)
      o << "  diffuse field: true\n";
    o << sfmt("  CFL: %.17g\n", cfl);
    o << "  do radiation: " << (radiation ? "true" : "false") << "\n";
    o << "  number of iterations: 2\n";
    o << "  number of photons: " << packets << "\n";
    o << "  number of buffers: "
      << (nbuffers > 0 ? nbuffers
                       : packets + 27 * total_subgrids() * (4 << copy_level) + 64)
      << "\n";
    o << "  number of tasks: "
      << (ntasks > 0 ? ntasks
                     : 18 * total_subgrids() + 6 * packets + 2000 +
                           (task_plot_rhd > 0
                                ? 250 * packets + 100 * total_subgrids() + 5000
                                : 0))
      << "\n";
    o << "  queue size per thread: " << 18 * total_subgrids() + 6 * packets + 2000
      << "\n";
    o << "  shared queue size: " << 18 * total_subgrids() + 6 * packets + 2000
      << "\n";
    o << "  source copy level: " << copy_level << "\n";
    o << "  random seed: " << seed << "\n";
    o << "  output folder: " << dir << "\n";
    o << "  use mask: " << (mask ? "true" : "false") << "\n";
    o << "  external gravity: " << (gravity ? "true" : "false") << "\n";
    o << "  do stellar feedback: " << (feedback ? "true" : "false") << "\n";
    o << "  do radiative cooling: " << (cooling ? "true" : "false") << "\n";
    o << "  turbulent forcing: " << (turbulence ? "true" : "false") << "\n";
    o << "RestartManager:\n  path: " << dir << "\n  output interval: "
      << (dump_every_step ? "-1. s" : "1.e30 s")
      << "\n  maximum number of backups: " << backups
      << "\n  maximum time: 1.e30 s\n";
    if (fields_mask != 0) {
      // non-default output fields
      o << "DensityGridWriterFields:\n";
      if (fields_mask & 1)
        o << "  Temperature: 1\n";
      if (fields_mask & 2)
        o << "  CosmicRayFactor: 1\n";
      if (fields_mask & 4)
        o << "  NumberDensity: 1\n";
      if (fields_mask & 8)
        o << "  Acceleration: 1\n";
      if (fields_mask & 16)
        o << "  Mass: 1\n";
      if (fields_mask & 32)
        o << "  Momentum: 1\n";
      if (fields_mask & 64)
        o << "  TotalEnergy: 1\n";
      if (fields_mask & 128)
        o << "  Pressure: 1\n";
    }
    o << "DensityGridWriter:\n  type: " << (writer == 0 ? "AsciiFile" : "Gadget")
      << "\n  prefix: snap_\n  padding: 3\n";
    if (mask) {
      double mc[3];
      for (int k = 0; k < 3; ++k)
        mc[k] = anchor[k] + 0.5 * sides[k];
      o << "HydroMask:\n  type: RescaledIC\n  center: " << vec(mc, "m")
        << sfmt("\n  radius: %.17g m\n", 0.3 * sides[0])
        << "  scale factor density: 0.5\n  scale factor velocity: 1.\n  "
           "scale factor pressure: 0.5\n"
        << sfmt("  delta t: %.17g s\n", dt > 0. ? 2. * dt : total_time / 16.);
    }
    if (turbulence) {
      o << "TurbulenceForcing:\n  minimum wave number: 1.\n  maximum wave "
           "number: 3.\n  peak forcing wave number: 2.5\n  concentration "
           "factor: 0.2\n  forcing power: 1.e-6 m^2 s^-3\n  random seed: 42\n"
        << sfmt("  time step: %.17g s\n", dt > 0. ? dt : total_time / 64.);
    }
    if (live_output) {
      o << "LiveOutputManager:\n  enabled: true\n"
        << "  output surface density: " << ((live_mask & 1) ? "true" : "false")
        << "\n  output ionized surface density: "
        << ((live_mask & 2) ? "true" : "false") << "\n  output density PDF: "
        << ((live_mask & 4) ? "true" : "false") << "\n  output velocity PDF: "
        << ((live_mask & 8) ? "true" : "false") << "\n"
        << sfmt("  output interval: %.17g s\n",
                dt > 0. ? 2. * dt : total_time / 8.);
    }
    if (gravity) {
      double gp[3];
      for (int k = 0; k < 3; ++k)
        gp[k] = anchor[k] + 0.47 * sides[k];
      o << "ExternalPotential:\n  type: PointMass\n  position: " << vec(gp, "m")
        << "\n  mass: 1.e30 kg\n";
    }
    const std::string path = dir + "/" + name;
    std::ofstream f(path);
    f << o.str();
    return path;
  }
};

// ------------------------------------------------------------- geometry ---
struct Layout {
  Cfg cfg;
  void init(const Cfg &c) { cfg = c; }
  int norig() const { return cfg.total_subgrids(); }
  void sub_pos(int index, int p[3]) const {
    p[0] = index / (cfg.nsub[1] * cfg.nsub[2]);
    p[1] = (index / cfg.nsub[2]) % cfg.nsub[1];
    p[2] = index % cfg.nsub[2];
  }
  int sub_index(const int p[3]) const {
    return (p[0] * cfg.nsub[1] + p[1]) * cfg.nsub[2] + p[2];
  }
  // neighbour across the face (axis, side = +1/-1), -1 = box boundary
  int neighbour(int index, int axis, int side) const {
    int p[3];
    sub_pos(index, p);
    p[axis] += side;
    if (p[axis] < 0 || p[axis] >= cfg.nsub[axis]) {
      if (!cfg.periodic(axis))
        return -1;
      p[axis] = (p[axis] + cfg.nsub[axis]) % cfg.nsub[axis];
    }
    return sub_index(p);
  }
};

inline int face_dir(int axis, int side) {
  return TRAVELDIRECTION_FACE_X_P + 2 * axis + (side > 0 ? 0 : 1);
}

// role of a hydro task, derived from the layout alone
enum Kind {
  K_GRAD_INT = 0,
  K_GRAD_PAIR,
  K_GRAD_BND,
  K_LIMIT,
  K_PREDICT,
  K_FLUX_INT,
  K_FLUX_PAIR,
  K_FLUX_BND,
  K_UPD_CONS,
  K_UPD_PRIM
};
struct Role {
  int kind, sub, axis, side; // axis/side only for pair (side=+1) / boundary
  bool operator<(const Role &o) const {
    if (kind != o.kind)
      return kind < o.kind;
    if (sub != o.sub)
      return sub < o.sub;
    if (axis != o.axis)
      return axis < o.axis;
    return side < o.side;
  }
  std::string str() const {
    static const char *kn[] = {"gradient-internal", "gradient-pair",
                               "gradient-boundary", "slope-limiter",
                               "predict",           "flux-internal",
                               "flux-pair",         "flux-boundary",
                               "update-conserved",  "update-primitives"};
    if (kind == K_GRAD_PAIR || kind == K_FLUX_PAIR || kind == K_GRAD_BND ||
        kind == K_FLUX_BND)
      return sfmt("%s(subgrid %d, %c%c)", kn[kind], sub, "xyz"[axis],
                  side > 0 ? '+' : '-');
    return sfmt("%s(subgrid %d)", kn[kind], sub);
  }
};

struct Violation {
  std::string vclass, message;
};

// state of one cell, in global cell order
struct CellState {
  double cons[5], prim[5];
};

class Ledger : public Listener {
public:
  Layout lay;
  bool failed = false;
  Violation violation;
  std::map< std::string, long long > stats;
  uint64_t ledger_hash = FNV_INIT;
  bool yield_at_task_begin = true;
  bool want_reference = false;   // C10: sequential reference of every step
  bool want_conservation = false; // C04
  double ref_tolerance = 1e-8;

  // pointers handed over at step begin
  ThreadSafeVector< Task > *tasks = nullptr;
  DensitySubGridCreator< HydroDensitySubGrid > *creator = nullptr;
  std::vector< TaskQueue * > *queues = nullptr;
  AtomicValue< uint_fast32_t > *number_of_tasks = nullptr;
  const Hydro *hydro = nullptr;
  const HydroBoundaryManager *boundaries = nullptr;
  double step_dt = 0., step_time = 0.;
  int step = 0;

  // task graph of this step
  std::map< Role, size_t > role_to_task;
  std::vector< Role > task_role;           // by task index
  std::vector< char > has_role;
  std::vector< std::vector< size_t > > parents; // by task index
  std::vector< int > started, stopped;
  std::vector< uint64_t > start_seq, stop_seq;
  std::map< int, size_t > running_on_sub; // subgrid -> running task
  std::vector< long > fiber_task;         // task currently run by each fiber
  size_t ntasks = 0;

  // per-step records for the history (C09/C19)
  struct StepRecord {
    int step;
    double requested, actual, time, old_dt;
    bool has_next;
    uint64_t digest;
  };
  std::vector< StepRecord > history;
  std::function< void(Ledger &) > on_step_begin, on_step_end;

  // conservation
  long double before[5];
  bool have_before = false;
  double wall_mach = 0.;

  // largest Mach number with which gas in a wall-adjacent cell moves towards
  // a reflecting wall
  double max_wall_mach() {
    const Cfg &c = lay.cfg;
    double m = 0.;
    for (int s = 0; s < lay.norig(); ++s) {
      HydroDensitySubGrid &g = *creator->get_subgrid((size_t)s);
      for (auto it = g.hydro_begin(); it != g.hydro_end(); ++it) {
        long gi[3];
        cell_global(it.get_cell_midpoint(), gi);
        const HydroVariables &h = it.get_hydro_variables();
        const double rho = h.get_primitives_density(),
                     P = h.get_primitives_pressure();
        const CoordinateVector<> v = h.get_primitives_velocity();
        for (int k = 0; k < 3; ++k) {
          if (c.periodic(k))
            continue;
          double toward = 0.;
          if (gi[k] == 0 && c.bc_lo[k] == 1)
            toward = std::max(toward, -v[k]);
          if (gi[k] == c.ncell[k] - 1 && c.bc_hi[k] == 1)
            toward = std::max(toward, v[k]);
          if (toward > 0.) {
            const double cs = (rho > 0. && P > 0.) ? std::sqrt(c.gamma * P / rho) : 0.;
            m = std::max(m, cs > 0. ? toward / cs : 1e30);
          }
        }
      }
    }
    return m;
  }

  // reference
  std::unique_ptr< HydroDensitySubGrid > ref;

  // Classes decided by the property this run serves (empty = all). A
  // failure of another property's class is noted and the ledger carries on:
  // it must not hide a violation of the property that is being decided (a
  // broken task graph is C07's business, but the lost conservation that
  // follows from it is C04's).
  std::map< size_t, std::string > dbg_sys[2]; // RHD_DEBUG_GRAD
  std::set< std::string > my_classes;
  std::set< std::string > foreign_classes_seen;
  void fail(const std::string &vclass, const std::string &msg) {
    if (!my_classes.empty() && !my_classes.count(vclass)) {
      foreign_classes_seen.insert(vclass);
      return;
    }
    if (!failed) {
      failed = true;
      violation.vclass = vclass;
      violation.message = msg;
      request_abort();
    }
  }

  // ---- geometry helpers on real subgrids ----
  void cell_global(const CoordinateVector<> &m, long g[3]) const {
    for (int k = 0; k < 3; ++k) {
      const double cs = lay.cfg.sides[k] / lay.cfg.ncell[k];
      g[k] = (long)std::floor((m[k] - lay.cfg.anchor[k]) / cs);
      if (g[k] < 0)
        g[k] = 0;
      if (g[k] >= lay.cfg.ncell[k])
        g[k] = lay.cfg.ncell[k] - 1;
    }
  }
  size_t cell_index(const CoordinateVector<> &m) const {
    long g[3];
    cell_global(m, g);
    return (size_t)((g[0] * lay.cfg.ncell[1] + g[1]) * lay.cfg.ncell[2] + g[2]);
  }
  size_t ncells() const {
    return (size_t)lay.cfg.ncell[0] * lay.cfg.ncell[1] * lay.cfg.ncell[2];
  }

  void gather(std::vector< CellState > &out) {
    out.assign(ncells(), CellState());
    for (int s = 0; s < lay.norig(); ++s) {
      HydroDensitySubGrid &g = *creator->get_subgrid((size_t)s);
      for (auto it = g.hydro_begin(); it != g.hydro_end(); ++it) {
        const size_t gi = cell_index(it.get_cell_midpoint());
        const HydroVariables &h = it.get_hydro_variables();
        for (int q = 0; q < 5; ++q) {
          out[gi].cons[q] = h.conserved((uint_fast8_t)q);
          out[gi].prim[q] = h.primitives((uint_fast8_t)q);
        }
      }
    }
  }

  uint64_t digest_state() {
    // FNV over the raw bytes of hydro and ionization variables of every cell
    // in global cell order
    std::vector< uint64_t > per(ncells(), 0);
    for (int s = 0; s < lay.norig(); ++s) {
      HydroDensitySubGrid &g = *creator->get_subgrid((size_t)s);
      for (auto it = g.hydro_begin(); it != g.hydro_end(); ++it) {
        const size_t gi = cell_index(it.get_cell_midpoint());
        const HydroVariables &h = it.get_hydro_variables();
        const IonizationVariables &iv = it.get_ionization_variables();
        uint64_t d = FNV_INIT;
        for (int q = 0; q < 5; ++q) {
          const double a = h.conserved((uint_fast8_t)q),
                       b = h.primitives((uint_fast8_t)q),
                       c = h.delta_conserved((uint_fast8_t)q);
          d = fnv1a_bytes(d, &a, 8);
          d = fnv1a_bytes(d, &b, 8);
          d = fnv1a_bytes(d, &c, 8);
        }
        const CoordinateVector<> acc = h.get_gravitational_acceleration();
        d = fnv1a_bytes(d, &acc[0], 8);
        d = fnv1a_bytes(d, &acc[1], 8);
        d = fnv1a_bytes(d, &acc[2], 8);
        const double nd = iv.get_number_density(), T = iv.get_temperature(),
                     x = iv.get_ionic_fraction(ION_H_n);
        d = fnv1a_bytes(d, &nd, 8);
        d = fnv1a_bytes(d, &T, 8);
        d = fnv1a_bytes(d, &x, 8);
        per[gi] = d;
      }
    }
    uint64_t d = FNV_INIT;
    for (uint64_t v : per)
      d = fnv1a(d, v);
    return d;
  }

  void totals(long double t[5]) {
    // compensated (Neumaier) summation in long double
    long double sum[5] = {0, 0, 0, 0, 0}, comp[5] = {0, 0, 0, 0, 0};
    for (int s = 0; s < lay.norig(); ++s) {
      HydroDensitySubGrid &g = *creator->get_subgrid((size_t)s);
      for (auto it = g.hydro_begin(); it != g.hydro_end(); ++it) {
        const HydroVariables &h = it.get_hydro_variables();
        for (int q = 0; q < 5; ++q) {
          const long double v = h.conserved((uint_fast8_t)q);
          const long double tt = sum[q] + v;
          if (fabsl(sum[q]) >= fabsl(v))
            comp[q] += (sum[q] - tt) + v;
          else
            comp[q] += (v - tt) + sum[q];
          sum[q] = tt;
        }
      }
    }
    for (int q = 0; q < 5; ++q)
      t[q] = sum[q] + comp[q];
  }

  // ---- task graph ----
  std::vector< int > touched(const Role &r) const {
    std::vector< int > v(1, r.sub);
    if (r.kind == K_GRAD_PAIR || r.kind == K_FLUX_PAIR) {
      const int n = lay.neighbour(r.sub, r.axis, +1);
      if (n != r.sub)
        v.push_back(n);
    }
    return v;
  }

  bool role_of_task(size_t t, Role &r, std::string &why) {
    const Task &task = (*tasks)[t];
    r.sub = (int)task.get_subgrid();
    r.axis = 0;
    r.side = 0;
    const int d = task.get_interaction_direction();
    auto set_face = [&]() {
      if (d < TRAVELDIRECTION_FACE_X_P || d > TRAVELDIRECTION_FACE_Z_N) {
        why = sfmt("interaction direction %d is not a face", d);
        return false;
      }
      r.axis = (d - TRAVELDIRECTION_FACE_X_P) / 2;
      r.side = ((d - TRAVELDIRECTION_FACE_X_P) % 2 == 0) ? +1 : -1;
      return true;
    };
    switch (task.get_type()) {
    case TASKTYPE_GRADIENTSWEEP_INTERNAL:
      r.kind = K_GRAD_INT;
      return true;
    case TASKTYPE_GRADIENTSWEEP_EXTERNAL_NEIGHBOUR:
      r.kind = K_GRAD_PAIR;
      return set_face();
    case TASKTYPE_GRADIENTSWEEP_EXTERNAL_BOUNDARY:
      r.kind = K_GRAD_BND;
      return set_face();
    case TASKTYPE_SLOPE_LIMITER:
      r.kind = K_LIMIT;
      return true;
    case TASKTYPE_PREDICT_PRIMITIVES:
      r.kind = K_PREDICT;
      return true;
    case TASKTYPE_FLUXSWEEP_INTERNAL:
      r.kind = K_FLUX_INT;
      return true;
    case TASKTYPE_FLUXSWEEP_EXTERNAL_NEIGHBOUR:
      r.kind = K_FLUX_PAIR;
      return set_face();
    case TASKTYPE_FLUXSWEEP_EXTERNAL_BOUNDARY:
      r.kind = K_FLUX_BND;
      return set_face();
    case TASKTYPE_UPDATE_CONSERVED:
      r.kind = K_UPD_CONS;
      return true;
    case TASKTYPE_UPDATE_PRIMITIVES:
      r.kind = K_UPD_PRIM;
      return true;
    default:
      why = sfmt("task type %d is not a hydro task", (int)task.get_type());
      return false;
    }
  }

  // expected roles from the layout alone
  std::set< Role > expected_roles() const {
    std::set< Role > e;
    for (int s = 0; s < lay.norig(); ++s) {
      e.insert(Role{K_GRAD_INT, s, 0, 0});
      e.insert(Role{K_LIMIT, s, 0, 0});
      e.insert(Role{K_PREDICT, s, 0, 0});
      e.insert(Role{K_FLUX_INT, s, 0, 0});
      e.insert(Role{K_UPD_CONS, s, 0, 0});
      e.insert(Role{K_UPD_PRIM, s, 0, 0});
      for (int a = 0; a < 3; ++a) {
        if (lay.neighbour(s, a, +1) >= 0) {
          e.insert(Role{K_GRAD_PAIR, s, a, +1});
          e.insert(Role{K_FLUX_PAIR, s, a, +1});
        } else {
          e.insert(Role{K_GRAD_BND, s, a, +1});
          e.insert(Role{K_FLUX_BND, s, a, +1});
        }
        if (lay.neighbour(s, a, -1) < 0) {
          e.insert(Role{K_GRAD_BND, s, a, -1});
          e.insert(Role{K_FLUX_BND, s, a, -1});
        }
      }
    }
    return e;
  }

  // parents (roles) of a role, from the scheme's data dependencies
  std::vector< Role > parent_roles(const Role &r) const {
    std::vector< Role > p;
    auto face_tasks = [&](int s, int gk_pair, int gk_bnd) {
      for (int a = 0; a < 3; ++a) {
        if (lay.neighbour(s, a, +1) >= 0)
          p.push_back(Role{gk_pair, s, a, +1});
        else
          p.push_back(Role{gk_bnd, s, a, +1});
        const int nn = lay.neighbour(s, a, -1);
        if (nn >= 0)
          p.push_back(Role{gk_pair, nn, a, +1});
        else
          p.push_back(Role{gk_bnd, s, a, -1});
      }
    };
    switch (r.kind) {
    case K_LIMIT:
      p.push_back(Role{K_GRAD_INT, r.sub, 0, 0});
      face_tasks(r.sub, K_GRAD_PAIR, K_GRAD_BND);
      break;
    case K_PREDICT:
      p.push_back(Role{K_LIMIT, r.sub, 0, 0});
      break;
    case K_FLUX_INT:
    case K_FLUX_BND:
      p.push_back(Role{K_PREDICT, r.sub, 0, 0});
      break;
    case K_FLUX_PAIR:
      p.push_back(Role{K_PREDICT, r.sub, 0, 0});
      p.push_back(Role{K_PREDICT, lay.neighbour(r.sub, r.axis, +1), 0, 0});
      break;
    case K_UPD_CONS:
      p.push_back(Role{K_FLUX_INT, r.sub, 0, 0});
      face_tasks(r.sub, K_FLUX_PAIR, K_FLUX_BND);
      break;
    case K_UPD_PRIM:
      p.push_back(Role{K_UPD_CONS, r.sub, 0, 0});
      break;
    default:
      break;
    }
    return p;
  }

  void build_graph() {
    role_to_task.clear();
    // enumerate the code's hydro tasks through the per-subgrid table
    std::set< size_t > indices;
    for (int s = 0; s < lay.norig(); ++s) {
      HydroDensitySubGrid &g = *creator->get_subgrid((size_t)s);
      for (int i = 0; i < 18; ++i) {
        const size_t t = g.get_hydro_task(i);
        if (t != NO_TASK)
          indices.insert(t);
      }
    }
    ntasks = indices.empty() ? 0 : *indices.rbegin() + 1;
    task_role.assign(ntasks, Role{0, 0, 0, 0});
    has_role.assign(ntasks, 0);
    for (size_t t : indices) {
      Role r;
      std::string why;
      if (!role_of_task(t, r, why)) {
        fail("task-table", sfmt("hydro task %zu: %s", t, why.c_str()));
        return;
      }
      if (r.sub < 0 || r.sub >= lay.norig()) {
        fail("task-table", sfmt("hydro task %zu refers to subgrid %d", t, r.sub));
        return;
      }
      if ((r.kind == K_GRAD_PAIR || r.kind == K_FLUX_PAIR)) {
        const int want = lay.neighbour(r.sub, r.axis, r.side);
        if (r.side != +1 || want < 0 ||
            (long)(*tasks)[t].get_buffer() != (long)want) {
          fail("task-table",
               sfmt("%s: partner subgrid %zu, geometric neighbour %d",
                    r.str().c_str(), (*tasks)[t].get_buffer(), want));
          return;
        }
      }
      if (role_to_task.count(r)) {
        fail("task-table", sfmt("two tasks (%zu and %zu) for %s",
                                role_to_task[r], t, r.str().c_str()));
        return;
      }
      role_to_task[r] = t;
      task_role[t] = r;
      has_role[t] = 1;
    }
    const std::set< Role > want = expected_roles();
    for (const Role &r : want)
      if (!role_to_task.count(r)) {
        fail("task-missing",
             sfmt("no task exists for %s", r.str().c_str()));
        return;
      }
    for (auto &kv : role_to_task)
      if (!want.count(kv.first)) {
        fail("task-table", sfmt("unexpected task %zu: %s", kv.second,
                                kv.first.str().c_str()));
        return;
      }
    parents.assign(ntasks, std::vector< size_t >());
    for (auto &kv : role_to_task)
      for (const Role &p : parent_roles(kv.first))
        parents[kv.second].push_back(role_to_task[p]);
    // the code's own tables: children and parent counters must describe the
    // same graph
    std::vector< std::multiset< size_t > > code_parents(ntasks);
    for (size_t t : indices) {
      const Task &task = (*tasks)[t];
      for (uint_fast8_t c = 0; c < task.get_number_of_children(); ++c) {
        const size_t ch = task.get_child(c);
        if (ch >= ntasks || !has_role[ch]) {
          fail("task-table", sfmt("%s releases task %zu which is not a hydro "
                                  "task",
                                  task_role[t].str().c_str(), ch));
          return;
        }
        code_parents[ch].insert(t);
      }
    }
    for (size_t t : indices) {
      std::multiset< size_t > wantp(parents[t].begin(), parents[t].end());
      if (wantp != code_parents[t]) {
        std::string extra, missing;
        for (size_t q : code_parents[t])
          if (!wantp.count(q) || code_parents[t].count(q) > wantp.count(q))
            extra += (extra.empty() ? "" : ", ") + task_role[q].str();
        for (size_t q : wantp)
          if (!code_parents[t].count(q) || wantp.count(q) > code_parents[t].count(q))
            missing += (missing.empty() ? "" : ", ") + task_role[q].str();
        fail("task-table",
             sfmt("%s is released by %zu task edges in the code's tables, the "
                  "scheme requires %zu; not in the scheme: [%s]; missing: [%s]",
                  task_role[t].str().c_str(), code_parents[t].size(),
                  wantp.size(), extra.c_str(), missing.c_str()));
        return;
      }
      const size_t counter = (*tasks)[t].get_number_of_unfinished_parents();
      if (counter != wantp.size()) {
        fail("task-table",
             sfmt("%s starts the step with parent counter %zu, the scheme "
                  "requires %zu",
                  task_role[t].str().c_str(), counter, wantp.size()));
        return;
      }
    }
  }

  // the scheme contains discontinuous switches (positivity clamps, the flux
  // limiter with its Mach-number condition, the vacuum Riemann branch): where
  // one of them intervenes, summation round-off can be amplified to a finite
  // difference, so such steps are not compared (they are counted)
  uint64_t switches_before = 0;
  static uint64_t switch_probes() {
    return probe_count("hydro_positivity_clamp") +
           probe_count("hydro_flux_limiter") + probe_count("riemann_vacuum") +
           probe_count("hydro_slope_limiter_extremum");
  }

  // ---- sequential reference of one step (C10) ----
  void reference_begin() {
    const Cfg &c = lay.cfg;
    const double box[6] = {c.anchor[0], c.anchor[1], c.anchor[2],
                           c.sides[0],  c.sides[1],  c.sides[2]};
    ref.reset(new HydroDensitySubGrid(
        box, CoordinateVector< int_fast32_t >(c.ncell[0], c.ncell[1],
                                              c.ncell[2])));
    for (int d = 0; d < TRAVELDIRECTION_NUMBER; ++d)
      ref->set_neighbour(d, NEIGHBOUR_OUTSIDE);
    // copy the complete cell state of the system
    std::map< size_t, std::pair< int, uint_fast32_t > > where;
    for (int s = 0; s < lay.norig(); ++s) {
      HydroDensitySubGrid &g = *creator->get_subgrid((size_t)s);
      for (auto it = g.hydro_begin(); it != g.hydro_end(); ++it)
        where[cell_index(it.get_cell_midpoint())] =
            std::make_pair(s, it.get_index());
    }
    for (auto it = ref->hydro_begin(); it != ref->hydro_end(); ++it) {
      const size_t gi = cell_index(it.get_cell_midpoint());
      auto w = where[gi];
      HydroDensitySubGrid &g = *creator->get_subgrid((size_t)w.first);
      auto src = g.hydro_begin() + w.second;
      it.get_hydro_variables().copy_all(src.get_hydro_variables());
      it.get_ionization_variables() = src.get_ionization_variables();
    }
  }

  void reference_step_and_compare() {
    const Cfg &c = lay.cfg;
    HydroDensitySubGrid &r = *ref;
    const Hydro &h = *hydro;
    r.inner_gradient_sweep(h);
    for (int a = 0; a < 3; ++a) {
      if (c.periodic(a)) {
        // the wrap-around pair: the block with itself across the +face
        r.outer_gradient_sweep(face_dir(a, +1), h, r);
      } else {
        r.outer_ghost_gradient_sweep(
            face_dir(a, +1), h,
            boundaries->get_boundary_condition((int_fast8_t)face_dir(a, +1)));
        r.outer_ghost_gradient_sweep(
            face_dir(a, -1), h,
            boundaries->get_boundary_condition((int_fast8_t)face_dir(a, -1)));
      }
    }
    if (getenv("RHD_DEBUG_GRAD")) {
      // limiter bounds of v_z in the reference, before they are used
      int idx = 0;
      for (auto it = r.hydro_begin(); it != r.hydro_end(); ++it, ++idx) {
        const size_t gi = cell_index(it.get_cell_midpoint());
        fprintf(stderr, "step %d ref cell %zu vz %.17g lim [%.17g %.17g] grad_y %.17g\n",
                step, gi, it.get_hydro_variables().primitives(3),
                r._primitive_variable_limiters[10 * idx + 6],
                r._primitive_variable_limiters[10 * idx + 7],
                it.get_hydro_variables().primitive_gradients(3)[1]);
      }
    }
    r.apply_slope_limiter(h);
    auto dbg_dump = [&](int which) {
      if (!getenv("RHD_DEBUG_GRAD"))
        return;
      for (auto it = r.hydro_begin(); it != r.hydro_end(); ++it) {
        const size_t gi = cell_index(it.get_cell_midpoint());
        HydroVariables &hv = it.get_hydro_variables();
        std::string tx;
        for (int q = 0; q < 5; ++q)
          tx += sfmt(" %d:[%.17g %.17g %.17g|%.17g]", q,
                     hv.primitive_gradients(q)[0], hv.primitive_gradients(q)[1],
                     hv.primitive_gradients(q)[2], hv.primitives(q));
        if (dbg_sys[which].count(gi) && dbg_sys[which][gi] != tx)
          fprintf(stderr, "step %d after %s cell %zu:\n  sys%s\n  ref%s\n", step,
                  which == 0 ? "limiter" : "prediction", gi,
                  dbg_sys[which][gi].c_str(), tx.c_str());
      }
    };
    dbg_dump(0);
    r.predict_primitive_variables(h, 0.5 * step_dt);
    dbg_dump(1);
    r.inner_flux_sweep(h, step_dt);
    for (int a = 0; a < 3; ++a) {
      if (c.periodic(a)) {
        r.outer_flux_sweep(face_dir(a, +1), h, r, step_dt);
      } else {
        r.outer_ghost_flux_sweep(
            face_dir(a, +1), h,
            boundaries->get_boundary_condition((int_fast8_t)face_dir(a, +1)),
            step_dt);
        r.outer_ghost_flux_sweep(
            face_dir(a, -1), h,
            boundaries->get_boundary_condition((int_fast8_t)face_dir(a, -1)),
            step_dt);
      }
    }
    r.update_conserved_variables(step_dt);
    r.update_primitive_variables(h);
    if (switch_probes() != switches_before) {
      ++stats["steps_not_compared_switch_fired"];
      return;
    }
    // compare cell by cell
    std::vector< CellState > sys;
    gather(sys);
    std::vector< CellState > rf(ncells());
    for (auto it = r.hydro_begin(); it != r.hydro_end(); ++it) {
      const size_t gi = cell_index(it.get_cell_midpoint());
      const HydroVariables &hv = it.get_hydro_variables();
      for (int q = 0; q < 5; ++q) {
        rf[gi].cons[q] = hv.conserved((uint_fast8_t)q);
        rf[gi].prim[q] = hv.primitives((uint_fast8_t)q);
      }
    }
    if (getenv("RHD_DEBUG_GRAD")) {
      // gradients (as limited and used in this step) of both sides
      std::map< size_t, std::string > gs, gr;
      for (auto it = r.hydro_begin(); it != r.hydro_end(); ++it) {
        const size_t gi = cell_index(it.get_cell_midpoint());
        HydroVariables &hv = it.get_hydro_variables();
        std::string t;
        for (int q = 0; q < 5; ++q)
          t += sfmt(" [%.17g %.17g %.17g]", hv.primitive_gradients(q)[0],
                    hv.primitive_gradients(q)[1], hv.primitive_gradients(q)[2]);
        gr[gi] = t;
      }
      for (int sg = 0; sg < lay.norig(); ++sg) {
        HydroDensitySubGrid &g = *creator->get_subgrid((size_t)sg);
        for (auto it = g.hydro_begin(); it != g.hydro_end(); ++it) {
          const size_t gi = cell_index(it.get_cell_midpoint());
          HydroVariables &hv = it.get_hydro_variables();
          std::string t;
          for (int q = 0; q < 5; ++q)
            t += sfmt(" [%.17g %.17g %.17g]", hv.primitive_gradients(q)[0],
                      hv.primitive_gradients(q)[1], hv.primitive_gradients(q)[2]);
          gs[gi] = t;
        }
      }
      for (auto &kv : gs)
        if (kv.second != gr[kv.first])
          fprintf(stderr, "step %d cell %zu gradients differ\n  sys%s\n  ref%s\n",
                  step, kv.first, kv.second.c_str(), gr[kv.first].c_str());
    }
    const int n1 = c.ncell[1], n2 = c.ncell[2], n0 = c.ncell[0];
    const double volume = (c.sides[0] / n0) * (c.sides[1] / n1) * (c.sides[2] / n2);
    // scale of each conserved variable around each cell: the largest
    // magnitude over the cell and its six neighbours in either result, the
    // thermal momentum for the momentum components (they are differences of
    // fluxes that contain the pressure), at least 1e-3 of the grid maximum
    std::vector< double > S[5];
    double gmax[5] = {0, 0, 0, 0, 0};
    for (size_t i = 0; i < ncells(); ++i)
      for (int q = 0; q < 5; ++q)
        gmax[q] = std::max(gmax[q], std::max(std::fabs(sys[i].cons[q]),
                                             std::fabs(rf[i].cons[q])));
    gmax[1] = gmax[2] = gmax[3] = std::max(gmax[1], std::max(gmax[2], gmax[3]));
    for (int q = 0; q < 5; ++q)
      S[q].assign(ncells(), 1e-3 * gmax[q]);
    for (int ix = 0; ix < n0; ++ix)
      for (int iy = 0; iy < n1; ++iy)
        for (int iz = 0; iz < n2; ++iz) {
          const size_t i = (size_t)((ix * n1 + iy) * n2 + iz);
          const int nb[7][3] = {{0, 0, 0},  {1, 0, 0},  {-1, 0, 0}, {0, 1, 0},
                                {0, -1, 0}, {0, 0, 1}, {0, 0, -1}};
          for (int k = 0; k < 7; ++k) {
            int j3[3] = {ix + nb[k][0], iy + nb[k][1], iz + nb[k][2]};
            bool ok = true;
            for (int a = 0; a < 3; ++a) {
              if (j3[a] < 0 || j3[a] >= c.ncell[a]) {
                if (c.periodic(a))
                  j3[a] = (j3[a] + c.ncell[a]) % c.ncell[a];
                else
                  ok = false;
              }
            }
            if (!ok)
              continue;
            const size_t j = (size_t)((j3[0] * n1 + j3[1]) * n2 + j3[2]);
            for (int q = 0; q < 5; ++q)
              S[q][i] = std::max(S[q][i], std::max(std::fabs(sys[j].cons[q]),
                                                   std::fabs(rf[j].cons[q])));
            const double thermal =
                std::sqrt(std::fabs(sys[j].cons[0] * sys[j].cons[4]));
            for (int q = 1; q <= 3; ++q)
              S[q][i] = std::max(S[q][i], thermal);
          }
          const double sp = std::max(S[1][i], std::max(S[2][i], S[3][i]));
          S[1][i] = S[2][i] = S[3][i] = sp;
        }
    if (getenv("RHD_DEBUG")) {
      for (size_t i = 0; i < ncells(); ++i)
        for (int q = 0; q < 5; ++q) {
          const double d = std::fabs(sys[i].cons[q] - rf[i].cons[q]);
          if (d > 1e-14 * S[q][i])
            fprintf(stderr, "step %d cell %zu var %d sys %.17g ref %.17g rel %.3g (prim sys %.10g ref %.10g)\n",
                    step, i, q, sys[i].cons[q], rf[i].cons[q], d / S[q][i], sys[i].prim[q], rf[i].prim[q]);
        }
    }
    static const char *cname[] = {"mass", "momentum x", "momentum y",
                                  "momentum z", "total energy"};
    static const char *pname[] = {"density", "velocity x", "velocity y",
                                  "velocity z", "pressure"};
    for (size_t i = 0; i < ncells() && !failed; ++i) {
      const int ix = (int)(i / (size_t)(n1 * n2)), iy = (int)((i / (size_t)n2) % (size_t)n1),
                iz = (int)(i % (size_t)n2);
      for (int q = 0; q < 5 && !failed; ++q) {
        const double d = std::fabs(sys[i].cons[q] - rf[i].cons[q]);
        if (!(d <= ref_tolerance * S[q][i])) {
          fail("layout-dependence",
               sfmt("step %d: %s of cell (%d,%d,%d) is %.17g with layout "
                    "%dx%dx%d and %d threads, and %.17g in the plain "
                    "sequential execution of the sweeps (difference %.3g of "
                    "the local scale)",
                    step, cname[q], ix, iy, iz, sys[i].cons[q], c.nsub[0],
                    c.nsub[1], c.nsub[2], c.threads, rf[i].cons[q],
                    S[q][i] > 0 ? d / S[q][i] : 0.));
        } else if (S[q][i] > 0) {
          const long long e18 = (long long)(d / S[q][i] * 1e18);
          if (e18 > stats["max_layout_reldiff_e18"])
            stats["max_layout_reldiff_e18"] = e18;
        }
      }
      if (failed)
        break;
      // primitive variables: propagate the conserved-variable tolerances
      const double m = std::min(sys[i].cons[0], rf[i].cons[0]);
      if (!(m > 0.))
        continue;
      const double vabs = std::max(
          std::fabs(sys[i].prim[1]),
          std::max(std::fabs(sys[i].prim[2]), std::fabs(sys[i].prim[3])));
      const double tol = 4. * ref_tolerance;
      double allow[5];
      allow[0] = tol * S[0][i] / volume;
      for (int q = 1; q <= 3; ++q)
        allow[q] = tol * (S[q][i] + vabs * S[0][i]) / m;
      allow[4] = tol * (c.gamma - 1.) / volume *
                     (S[4][i] + 3. * vabs * S[1][i] + 1.5 * vabs * vabs * S[0][i]) +
                 tol * std::fabs(sys[i].prim[4]);
      for (int q = 0; q < 5 && !failed; ++q) {
        const double d = std::fabs(sys[i].prim[q] - rf[i].prim[q]);
        if (!(d <= allow[q]))
          fail("layout-dependence",
               sfmt("step %d: %s of cell (%d,%d,%d) is %.17g with layout "
                    "%dx%dx%d and %d threads, and %.17g in the plain "
                    "sequential execution of the sweeps (difference %.3g, "
                    "allowed %.3g from the conserved-variable tolerances)",
                    step, pname[q], ix, iy, iz, sys[i].prim[q], c.nsub[0],
                    c.nsub[1], c.nsub[2], c.threads, rf[i].prim[q], d,
                    allow[q]));
      }
    }
    stats["cells_compared"] += (long long)ncells();
  }

  // ---- events ----
  virtual void on_event(int kind, const void *a, const void *b, long x,
                        long y) {
    if (failed)
      return;
    switch (kind) {
    case CMI_VERIF_EVENT_HYDRO_STEP_BEGIN: {
      const void *const *rec = (const void *const *)a;
      tasks = (ThreadSafeVector< Task > *)rec[0];
      creator = (DensitySubGridCreator< HydroDensitySubGrid > *)rec[1];
      queues = (std::vector< TaskQueue * > *)rec[2];
      number_of_tasks = (AtomicValue< uint_fast32_t > *)rec[3];
      step_dt = *(const double *)rec[4];
      step_time = *(const double *)rec[5];
      hydro = (const Hydro *)rec[6];
      boundaries = (const HydroBoundaryManager *)rec[7];
      step = (int)x;
      ledger_hash = fnv1a(ledger_hash, 0x5700 + (uint64_t)x);
      build_graph();
      if (failed)
        break;
      started.assign(ntasks, 0);
      stopped.assign(ntasks, 0);
      start_seq.assign(ntasks, 0);
      stop_seq.assign(ntasks, 0);
      running_on_sub.clear();
      fiber_task.assign(64, -1);
      if (want_conservation) {
        totals(before);
        have_before = true;
        wall_mach = max_wall_mach();
        probe_reset("max:hydro_boundary_face_mach");
      }
      if (want_reference)
        reference_begin();
      switches_before = switch_probes();
      if (on_step_begin)
        on_step_begin(*this);
      ++stats["hydro_steps"];
      break;
    }
    case CMI_VERIF_EVENT_HYDRO_TASK_BEGIN: {
      const size_t t = (size_t)x;
      const int me = current_fiber();
      if (yield_at_task_begin)
        harness_yield(a); // let intervals overlap if the locks allow it
      if (t >= ntasks || !has_role[t]) {
        fail("task-table", sfmt("step %d: task %zu executed but it is not a "
                                "hydro task of this step",
                                step, t));
        break;
      }
      const Role &r = task_role[t];
      ledger_hash = fnv1a(ledger_hash, ((uint64_t)t << 8) ^ (uint64_t)me);
      if (started[t]) {
        fail("task-twice", sfmt("step %d: %s started a second time", step,
                                r.str().c_str()));
        break;
      }
      started[t] = 1;
      start_seq[t] = now_seq();
      for (size_t p : parents[t])
        if (!stopped[p]) {
          fail("dependency-order",
               sfmt("step %d: %s started before %s finished", step,
                    r.str().c_str(), task_role[p].str().c_str()));
          break;
        }
      if (failed)
        break;
      for (int s : touched(r)) {
        auto it = running_on_sub.find(s);
        if (it != running_on_sub.end()) {
          fail("overlap",
               sfmt("step %d: %s (thread %d) started while %s is still "
                    "running; both touch subgrid %d",
                    step, r.str().c_str(), me,
                    task_role[it->second].str().c_str(), s));
          break;
        }
        const int holder =
            lock_holder((*creator->get_subgrid((size_t)s)).get_dependency());
        if (holder != me) {
          fail("lock-not-held",
               sfmt("step %d: %s started on thread %d without holding the "
                    "lock of subgrid %d (holder: %d)",
                    step, r.str().c_str(), me, s, holder));
          break;
        }
      }
      if (failed)
        break;
      for (int s : touched(r))
        running_on_sub[s] = t;
      if ((size_t)me < fiber_task.size())
        fiber_task[(size_t)me] = (long)t;
      ++stats["hydro_tasks"];
      break;
    }
    case CMI_VERIF_EVENT_HYDRO_TASK_END: {
      const size_t t = (size_t)x;
      if (t >= ntasks || !has_role[t] || !started[t] || stopped[t]) {
        fail("task-twice", sfmt("step %d: end of task %zu which is not "
                                "running",
                                step, t));
        break;
      }
      stopped[t] = 1;
      stop_seq[t] = now_seq();
      for (int s : touched(task_role[t]))
        running_on_sub.erase(s);
      if (getenv("RHD_DEBUG_GRAD") &&
          (task_role[t].kind == K_LIMIT || task_role[t].kind == K_PREDICT)) {
        // debug: gradients after the limiter / state after the prediction
        HydroDensitySubGrid &g =
            *creator->get_subgrid((size_t)task_role[t].sub);
        for (auto it = g.hydro_begin(); it != g.hydro_end(); ++it) {
          const size_t gi = cell_index(it.get_cell_midpoint());
          HydroVariables &hv = it.get_hydro_variables();
          std::string tx;
          for (int q = 0; q < 5; ++q)
            tx += sfmt(" %d:[%.17g %.17g %.17g|%.17g]", q,
                       hv.primitive_gradients(q)[0], hv.primitive_gradients(q)[1],
                       hv.primitive_gradients(q)[2], hv.primitives(q));
          dbg_sys[task_role[t].kind == K_LIMIT ? 0 : 1][gi] = tx;
        }
      }
      break;
    }
    case CMI_VERIF_EVENT_HYDRO_STEP_END: {
      const void *const *rec = (const void *const *)a;
      for (size_t t = 0; t < ntasks && !failed; ++t)
        if (has_role[t] && !(started[t] && stopped[t]))
          fail("task-missing", sfmt("step %d ended but %s was never executed",
                                    step, task_role[t].str().c_str()));
      if (failed)
        break;
      if (number_of_tasks->value() != 0)
        fail("leftover-tasks", sfmt("step %d ended with task counter %u", step,
                                    (unsigned)number_of_tasks->value()));
      for (size_t q = 0; q < queues->size() && !failed; ++q)
        if ((*queues)[q]->size() != 0)
          fail("leftover-tasks", sfmt("step %d ended with %zu entries in the "
                                      "queue of thread %zu",
                                      step, (*queues)[q]->size(), q));
      if (failed)
        break;
      StepRecord sr;
      sr.step = step;
      sr.requested = *(const double *)rec[1];
      sr.actual = *(const double *)rec[2];
      sr.time = *(const double *)rec[3];
      sr.has_next = *(const bool *)rec[4];
      sr.old_dt = *(const double *)rec[5];
      sr.digest = digest_state();
      ledger_hash = fnv1a(ledger_hash, sr.digest);
      history.push_back(sr);
      check_state_physical();
      if (!failed && want_conservation && have_before)
        check_conservation();
      if (!failed && want_reference)
        reference_step_and_compare();
      if (switch_probes() != switches_before)
        ++stats["steps_with_limiter_clamp_or_vacuum"];
      if (!failed && on_step_end)
        on_step_end(*this);
      break;
    }
    default:
      break;
    }
    (void)b;
    (void)y;
  }

  void check_state_physical() {
    for (int s = 0; s < lay.norig() && !failed; ++s) {
      HydroDensitySubGrid &g = *creator->get_subgrid((size_t)s);
      for (auto it = g.hydro_begin(); it != g.hydro_end() && !failed; ++it) {
        const HydroVariables &h = it.get_hydro_variables();
        const double m = h.get_conserved_mass(), E = h.get_conserved_total_energy(),
                     rho = h.get_primitives_density(),
                     P = h.get_primitives_pressure();
        const CoordinateVector<> v = h.get_primitives_velocity();
        const CoordinateVector<> p = h.get_conserved_momentum();
        if (!(std::isfinite(m) && std::isfinite(E) && std::isfinite(rho) &&
              std::isfinite(P) && m >= 0. && E >= 0. && rho >= 0. && P >= 0. &&
              std::isfinite(v[0]) && std::isfinite(v[1]) &&
              std::isfinite(v[2]) && std::isfinite(p[0]) &&
              std::isfinite(p[1]) && std::isfinite(p[2])))
          fail("unphysical-state",
               sfmt("after step %d a cell of subgrid %d holds mass %g, energy "
                    "%g, density %g, pressure %g, velocity (%g, %g, %g)",
                    step, s, m, E, rho, P, v[0], v[1], v[2]));
      }
    }
  }

  // conservation is demanded in periodic boxes (all five totals) and in
  // boxes with reflecting walls (mass and energy) when no positivity clamp
  // fired (no cell ended the step with exactly zero mass or energy)
  void check_conservation() {
    const Cfg &c = lay.cfg;
    bool all_periodic = true, closed = true;
    for (int k = 0; k < 3; ++k) {
      if (!c.periodic(k))
        all_periodic = false;
      if (!c.periodic(k) && !(c.bc_lo[k] == 1 && c.bc_hi[k] == 1))
        closed = false;
    }
    if (!closed || c.mask || c.turbulence || c.radiation)
      return;
    long double after[5];
    totals(after);
    if (getenv("RHD_DEBUG")) {
      fprintf(stderr, "step %d dt %g wall_mach %g mass %.15Lg -> %.15Lg energy %.15Lg -> %.15Lg\n",
              step, step_dt, wall_mach, before[0], after[0], before[4], after[4]);
      for (int s = 0; s < lay.norig(); ++s) {
        HydroDensitySubGrid &g = *creator->get_subgrid((size_t)s);
        for (auto it = g.hydro_begin(); it != g.hydro_end(); ++it) {
          long gi[3];
          cell_global(it.get_cell_midpoint(), gi);
          const HydroVariables &h = it.get_hydro_variables();
          fprintf(stderr, "  cell %ld %ld %ld m %.10g E %.10g rho %.6g v %.6g %.6g %.6g P %.6g\n", gi[0], gi[1], gi[2],
                  h.get_conserved_mass(), h.get_conserved_total_energy(), h.get_primitives_density(),
                  h.get_primitives_velocity()[0], h.get_primitives_velocity()[1], h.get_primitives_velocity()[2], h.get_primitives_pressure());
        }
      }
    }
    bool clamped = false;
    long double absmom = 0, scale_m = 0, scale_E = 0;
    for (int s = 0; s < lay.norig(); ++s) {
      HydroDensitySubGrid &g = *creator->get_subgrid((size_t)s);
      for (auto it = g.hydro_begin(); it != g.hydro_end(); ++it) {
        const HydroVariables &h = it.get_hydro_variables();
        if (h.get_conserved_mass() == 0. || h.get_conserved_total_energy() == 0.)
          clamped = true;
        const CoordinateVector<> p = h.get_conserved_momentum();
        absmom += fabsl((long double)p[0]) + fabsl((long double)p[1]) +
                  fabsl((long double)p[2]);
        scale_m += h.get_conserved_mass();
        scale_E += h.get_conserved_total_energy();
      }
    }
    if (clamped) {
      ++stats["steps_with_positivity_clamp"];
      return;
    }
    // Mach number with which the reconstructed face states ran into the
    // walls in this step, as the code computed them (probe H9c)
    const double face_mach =
        1e-6 * (double)probe_count("max:hydro_boundary_face_mach");
    if (!all_periodic)
      ++stats[face_mach > 1.5   ? "wall_steps_face_mach_above_1.5"
              : face_mach > 0.7 ? "wall_steps_face_mach_0.7_to_1.5"
                                : "wall_steps_face_mach_below_0.7"];
    if (!all_periodic && face_mach > 1.5) {
      // the property only promises conservation for gas running into a wall
      // slower than 1.5 times its sound speed; the wall flux is computed from
      // face-reconstructed states, whose Mach number the code reports (H9c)
      ++stats["steps_skipped_fast_gas_at_wall"];
      return;
    }
    const long double tol = 1e-12L;
    auto rel = [](long double a, long double b, long double scale) {
      return scale > 0 ? fabsl(a - b) / scale : fabsl(a - b);
    };
    const long double dm = rel(after[0], before[0], scale_m);
    const long double dE = rel(after[4], before[4], scale_E);
    stats["max_mass_drift_e18"] =
        std::max< long long >(stats["max_mass_drift_e18"], (long long)(dm * 1e18L));
    stats["max_energy_drift_e18"] =
        std::max< long long >(stats["max_energy_drift_e18"], (long long)(dE * 1e18L));
    if (dm > tol)
      fail("mass-not-conserved",
           sfmt("step %d (%s box, layout %dx%dx%d, %d threads): total mass "
                "changed from %.20Lg to %.20Lg (relative %.3Lg)",
                step, all_periodic ? "periodic" : "reflecting", c.nsub[0],
                c.nsub[1], c.nsub[2], c.threads, before[0], after[0], dm));
    else if (dE > tol && c.gamma > 1.)
      fail("energy-not-conserved",
           sfmt("step %d (%s box, layout %dx%dx%d, %d threads): total energy "
                "changed from %.20Lg to %.20Lg (relative %.3Lg)",
                step, all_periodic ? "periodic" : "reflecting", c.nsub[0],
                c.nsub[1], c.nsub[2], c.threads, before[4], after[4], dE));
    else if (all_periodic) {
      // momentum: relative to the sum of |momentum| plus the momentum scale
      // of the thermal motion (mass x sound speed ~ sqrt(mass x energy))
      const long double pscale =
          absmom + sqrtl(fabsl(scale_m * scale_E)) + 1e-300L;
      for (int q = 1; q <= 3; ++q) {
        const long double dp = fabsl(after[q] - before[q]) / pscale;
        stats["max_momentum_drift_e18"] = std::max< long long >(
            stats["max_momentum_drift_e18"], (long long)(dp * 1e18L));
        if (dp > tol) {
          fail("momentum-not-conserved",
               sfmt("step %d (periodic box, layout %dx%dx%d, %d threads): "
                    "total momentum component %d changed from %.20Lg to "
                    "%.20Lg (%.3Lg of the momentum scale)",
                    step, c.nsub[0], c.nsub[1], c.nsub[2], c.threads, q - 1,
                    before[q], after[q], dp));
          break;
        }
      }
    }
    ++stats["conservation_checks"];
  }
};

} // namespace rhd

#endif
