// E-FS: restart dump rotation under process death at every file-system
// operation (C14). Real RestartManager / RestartWriter / RestartReader on the
// real kernel file system in forked children; the simulated file layer
// (detsim/fsim.cpp) numbers every open/write/close/rename of a dump and kills
// the child before, after, or in the middle of (torn write) a chosen one.
#include "../detsim/driver.hpp"
#include "../detsim/fsim.hpp"

#include "RestartManager.hpp"

#include <cstdarg>
#include <dirent.h>
#include <fcntl.h>
#include <set>
#include <sys/stat.h>
#include <sys/wait.h>
#include <unistd.h>

using namespace detsim;

namespace {

std::string sfmt(const char *f, ...) {
  char buf[1024];
  va_list ap;
  va_start(ap, f);
  vsnprintf(buf, sizeof buf, f, ap);
  va_end(ap);
  return buf;
}

const uint64_t MAGIC = 0x434d495645524946ull;

size_t payload_size(uint64_t seed, int n) {
  Rng r(mix64(seed, (uint64_t)n));
  static const size_t sizes[] = {0, 1, 8, 100, 4000, 8191, 8192, 8193, 20000, 70000};
  return sizes[r.below(10)] + (size_t)r.below(64);
}

// one dump = magic, number, length, payload, checksum through the real writer
void write_dump(RestartWriter &w, uint64_t seed, int n) {
  const uint64_t num = (uint64_t)n;
  const size_t len = payload_size(seed, n);
  w.write(MAGIC);
  w.write(num);
  Rng r(mix64(seed, 1000 + (uint64_t)n));
  std::string body(len, '\0');
  uint64_t sum = fnv1a(FNV_INIT, num);
  for (size_t k = 0; k < len; ++k) {
    body[k] = (char)(1 + r.below(255)); // no embedded NUL (string reader)
    sum = fnv1a_bytes(sum, &body[k], 1);
  }
  w.write(body); // writes the length first
  w.write(sum);
}

// returns the dump number held by the file, 0 if missing, -1 if not a
// complete valid dump
long parse_dump(const std::string &path) {
  struct stat st;
  if (stat(path.c_str(), &st) != 0)
    return 0;
  FILE *f = fopen(path.c_str(), "rb");
  if (!f)
    return -1;
  std::string data((size_t)st.st_size, '\0');
  size_t got = fread(&data[0], 1, data.size(), f);
  fclose(f);
  if (got != data.size() || data.size() < 32)
    return -1;
  uint64_t magic, num, len, sum;
  memcpy(&magic, &data[0], 8);
  memcpy(&num, &data[8], 8);
  memcpy(&len, &data[16], 8);
  if (magic != MAGIC || data.size() != 32 + len)
    return -1;
  memcpy(&sum, &data[24 + len], 8);
  uint64_t s = fnv1a(FNV_INIT, num);
  s = fnv1a_bytes(s, &data[24], (size_t)len);
  if (s != sum)
    return -1;
  return (long)num;
}

struct DirState {
  long main_dump = 0;            // number in restart.dump
  std::map< int, long > backups; // index -> number (or -1)
  std::vector< std::string > other;
};

DirState scan(const std::string &dir) {
  DirState d;
  DIR *dp = opendir(dir.c_str());
  if (!dp)
    return d;
  while (struct dirent *e = readdir(dp)) {
    std::string n = e->d_name;
    if (n == "." || n == "..")
      continue;
    if (n == "restart.dump") {
      d.main_dump = parse_dump(dir + "/" + n);
    } else if (n.compare(0, 8, "restart.") == 0 && n.size() > 13 &&
               n.compare(n.size() - 5, 5, ".back") == 0) {
      int idx = atoi(n.substr(8, n.size() - 13).c_str());
      d.backups[idx] = parse_dump(dir + "/" + n);
    } else if (n != "report.txt") {
      d.other.push_back(n);
    }
  }
  closedir(dp);
  return d;
}

std::string describe_state(const DirState &d) {
  std::string s = sfmt("restart.dump=%ld", d.main_dump);
  for (auto &b : d.backups)
    s += sfmt(" restart.%d.back=%ld", b.first, b.second);
  for (auto &o : d.other)
    s += " other:" + o;
  return s;
}

void rm_dir(const std::string &dir) {
  DIR *dp = opendir(dir.c_str());
  if (dp) {
    while (struct dirent *e = readdir(dp)) {
      std::string n = e->d_name;
      if (n != "." && n != "..")
        unlink((dir + "/" + n).c_str());
    }
    closedir(dp);
  }
  rmdir(dir.c_str());
}

// run the dump history in a forked child; returns the wait status.
// fault-free pass (crash_at < 0): the child writes report.txt with the
// operation log and the directory state after each dump.
int run_child(const std::string &dir, int B, int D, uint64_t seed,
              long crash_at, int variant, double frac, uint32_t restarts) {
  mkdir(dir.c_str(), 0700);
  fflush(stdout);
  fflush(stderr);
  pid_t pid = fork();
  if (pid == 0) {
    if (chdir(dir.c_str()))
      _exit(9);
    // a dump failure calls cmac_error -> abort: keep stderr quiet
    int nfd = open("/dev/null", O_WRONLY);
    if (nfd >= 0)
      dup2(nfd, 2);
    // `restarts` bit n: after dump n the process is replaced by a new one
    // restarted in place (a new RestartManager over the same folder)
    RestartManager *mgr = new RestartManager(".", 0., (uint_fast32_t)B, 1e30, "");
    std::string report;
    fsim::arm(crash_at, variant, frac);
    for (int n = 1; n <= D; ++n) {
      fsim::set_tag(n);
      RestartWriter *w = mgr->get_restart_writer(nullptr);
      write_dump(*w, seed, n);
      delete w;
      if (n < 32 && ((restarts >> n) & 1u)) {
        delete mgr;
        mgr = new RestartManager(".", 0., (uint_fast32_t)B, 1e30, "");
      }
      if (crash_at < 0) {
        fsim::disarm();
        DirState st = scan(".");
        report += sfmt("state %d ", n) + describe_state(st) + "\n";
        // re-arm without resetting the counters
        fsim::arm(-1, 0, 0.);
      }
    }
    fsim::disarm();
    if (crash_at < 0) {
      // second numbering pass is not possible after re-arming: the operation
      // log is produced by a separate child (see below)
      int fd = open("report.txt", O_WRONLY | O_CREAT | O_TRUNC, 0600);
      if (fd >= 0) {
        if (write(fd, report.data(), report.size())) {
        }
        close(fd);
      }
    }
    _exit(0);
  }
  int status = 0;
  waitpid(pid, &status, 0);
  return status;
}

// numbering pass: child runs fault-free, armed throughout, and reports the
// operation log (index, kind, dump number)
std::vector< fsim::Op > number_ops(const std::string &dir, int B, int D,
                                   uint64_t seed, int &status,
                                   uint32_t restarts) {
  std::vector< fsim::Op > ops;
  mkdir(dir.c_str(), 0700);
  int fd[2];
  if (pipe(fd))
    return ops;
  fflush(stdout);
  fflush(stderr);
  pid_t pid = fork();
  if (pid == 0) {
    close(fd[0]);
    if (chdir(dir.c_str()))
      _exit(9);
    int nfd = open("/dev/null", O_WRONLY);
    if (nfd >= 0)
      dup2(nfd, 2);
    RestartManager *mgr = new RestartManager(".", 0., (uint_fast32_t)B, 1e30, "");
    fsim::arm(-1, 0, 0.);
    for (int n = 1; n <= D; ++n) {
      fsim::set_tag(n);
      RestartWriter *w = mgr->get_restart_writer(nullptr);
      write_dump(*w, seed, n);
      delete w;
      if (n < 32 && ((restarts >> n) & 1u)) {
        delete mgr;
        mgr = new RestartManager(".", 0., (uint_fast32_t)B, 1e30, "");
      }
    }
    fsim::disarm();
    std::string out;
    for (auto &o : fsim::log())
      out += sfmt("%ld %s %d %ld\n", o.index, o.kind.c_str(), o.tag, o.bytes);
    size_t off = 0;
    while (off < out.size()) {
      ssize_t wn = write(fd[1], out.data() + off, out.size() - off);
      if (wn <= 0)
        break;
      off += (size_t)wn;
    }
    _exit(0);
  }
  close(fd[1]);
  std::string data;
  char buf[65536];
  for (;;) {
    ssize_t r = read(fd[0], buf, sizeof buf);
    if (r <= 0)
      break;
    data.append(buf, (size_t)r);
  }
  close(fd[0]);
  waitpid(pid, &status, 0);
  std::istringstream is(data);
  fsim::Op o;
  while (is >> o.index >> o.kind >> o.tag >> o.bytes)
    ops.push_back(o);
  return ops;
}

class EFsEngine : public Engine {
public:
  std::string property() const { return "C14"; }
  std::string level() const { return "fault_enumeration"; }
  void budget(const std::string &tier, uint64_t &runs, double &seconds) const {
    if (tier == "quick") {
      runs = 400;
      seconds = 60;
    } else {
      runs = 6000;
      seconds = 1200;
    }
  }
  std::string sched_key() const { return ""; }
  int watchdog_seconds() const { return 240; }

  std::vector< Json > directed(const std::string &tier) {
    // the complete (B, D) grid: B 0..8, D 0..20 (thorough); a diagonal subset
    // in quick
    std::vector< Json > v;
    for (int B = 0; B <= 8; ++B)
      for (int D = 0; D <= 20; ++D) {
        if (tier == "quick" && !(D <= 6 || (D == 12 && B <= 3)))
          continue;
        Json c = Json::object();
        c["B"] = B;
        c["D"] = D;
        c["seed"] = Json(std::to_string(mix64(77, (uint64_t)(B * 100 + D))));
        c["restarts"] = 0;
        v.push_back(c);
        // the same history with the process replaced (restarted in place)
        // after dump 1, after dump D/2 and after both
        if (D >= 2 && (tier != "quick" || B <= 3)) {
          const int masks[3] = {1 << 1, 1 << (D / 2 < 1 ? 1 : D / 2),
                                (1 << 1) | (1 << (D - 1))};
          for (int m = 0; m < 3; ++m) {
            if (m > 0 && masks[m] == masks[0])
              continue;
            Json c2 = c;
            c2["restarts"] = masks[m];
            v.push_back(c2);
          }
        }
      }
    return v;
  }

  Json generate(uint64_t run_seed, const std::string &tier, uint64_t index) {
    Rng r(run_seed);
    Json c = Json::object();
    c["B"] = (int)r.range(0, 8);
    c["D"] = (int)r.range(0, tier == "quick" ? 10 : 20);
    c["seed"] = Json(std::to_string(r.next()));
    int mask = 0;
    const int nr = (int)r.below(3);
    for (int k = 0; k < nr; ++k)
      mask |= 1 << (int)r.range(1, 20);
    c["restarts"] = mask;
    return c;
  }

  Outcome execute(const Json &c) {
    Outcome out;
    const int B = (int)c.at("B").as_int(1);
    const int D = (int)c.at("D").as_int(3);
    const uint64_t seed = c.at("seed").as_u64(1);
    const uint32_t restarts =
        c.has("restarts") ? (uint32_t)c.at("restarts").as_int(0) : 0u;
    const long only_op = c.has("only_op") ? (long)c.at("only_op").as_int() : -1;
    const int only_variant =
        c.has("only_variant") ? (int)c.at("only_variant").as_int() : -1;
    const std::string base = scratch_dir();
    std::string vclass, message;
    auto fail = [&](const std::string &cl, const std::string &m) {
      if (vclass.empty()) {
        vclass = cl;
        message = m;
      }
    };
    long long children = 0, crashes = 0, torn = 0, from_backup = 0;
    uint64_t hash = FNV_INIT;
    Json sig = Json::object();
    sig["backups_ge_2"] = B >= 2;

    // ---- fault-free pass ----
    const std::string d0 = base + "/ff";
    rm_dir(d0);
    int status = run_child(d0, B, D, seed, -1, 0, 0., restarts);
    ++children;
    if (!(WIFEXITED(status) && WEXITSTATUS(status) == 0)) {
      DirState st = scan(d0);
      fail("dump-failed",
           sfmt("taking %d dumps with %d backups configured failed (%s); "
                "directory afterwards: %s",
                D, B,
                WIFSIGNALED(status)
                    ? sfmt("killed by signal %d", WTERMSIG(status)).c_str()
                    : sfmt("exit status %d", WEXITSTATUS(status)).c_str(),
                describe_state(st).c_str()));
    } else {
      std::ifstream rep(d0 + "/report.txt");
      std::string line;
      int nstates = 0;
      while (std::getline(rep, line) && vclass.empty()) {
        std::istringstream is(line);
        std::string w;
        int n;
        is >> w >> n;
        ++nstates;
        // expected state after dump n
        std::string expect = sfmt("restart.dump=%d", n);
        const int nb = std::min(B, n - 1);
        for (int i = 0; i < nb; ++i)
          expect += sfmt(" restart.%d.back=%d", i, n - 1 - i);
        std::string got = line.substr(line.find("restart.dump"));
        hash = fnv1a_bytes(hash, got.data(), got.size());
        if (got != expect)
          fail("rotation",
               sfmt("after dump %d of %d with %d backups configured the "
                    "directory holds [%s], expected [%s]",
                    n, D, B, got.c_str(), expect.c_str()));
      }
      if (vclass.empty() && nstates != D)
        fail("dump-failed", sfmt("%d of %d dumps were taken", nstates, D));
    }
    rm_dir(d0);

    // ---- crash enumeration ----
    if (vclass.empty() && D >= 1) {
      const std::string dn = base + "/num";
      rm_dir(dn);
      int st2 = 0;
      std::vector< fsim::Op > ops = number_ops(dn, B, D, seed, st2, restarts);
      rm_dir(dn);
      ++children;
      // index of the truncating open of each dump
      std::map< int, long > open_of;
      for (auto &o : ops)
        if (o.kind == "open")
          open_of[o.tag] = o.index;
      for (auto &o : ops) {
        if (!vclass.empty())
          break;
        if (only_op >= 0 && o.index != only_op)
          continue;
        const int n = o.tag;
        for (int variant = 0; variant < 3 && vclass.empty(); ++variant) {
          if (only_variant >= 0 && variant != only_variant)
            continue;
          if (variant == 2 && !(o.kind == "write" || o.kind == "writev"))
            continue;
          if (variant == 2 && o.bytes < 2)
            continue;
          const std::string dc = base + "/crash";
          rm_dir(dc);
          Rng fr(mix64(seed, (uint64_t)o.index * 3 + (uint64_t)variant));
          const double frac = fr.unit();
          int st3 = run_child(dc, B, D, seed, o.index, variant, frac, restarts);
          ++children;
          if (!(WIFEXITED(st3) && WEXITSTATUS(st3) == 137)) {
            fail("crash-model",
                 sfmt("child did not die at file-system operation %ld "
                      "(status %d)",
                      o.index, st3));
            rm_dir(dc);
            break;
          }
          ++crashes;
          if (variant == 2)
            ++torn;
          DirState ds = scan(dc);
          const std::string got = describe_state(ds);
          hash = fnv1a_bytes(hash, got.data(), got.size());
          // which complete dumps are on disk
          std::set< long > present;
          if (ds.main_dump > 0)
            present.insert(ds.main_dump);
          for (auto &b : ds.backups)
            if (b.second > 0)
              present.insert(b.second);
          static const char *vn[] = {"before", "after", "in the middle of"};
          if (B >= 1 && n >= 2) {
            // every dump that is kept after dump n (except n itself) existed
            // before and must exist at every moment in between
            for (int k = n - 1; k >= n - std::min(B, n - 1); --k) {
              if (!present.count(k)) {
                fail(k == n - 1 ? "last-dump-lost" : "backup-lost",
                     sfmt("%d backups configured, process dies %s "
                          "file-system operation %ld (%s of dump %d): no "
                          "complete copy of dump %d is left on disk; "
                          "directory: %s",
                          B, vn[variant], o.index, o.kind.c_str(), n, k,
                          got.c_str()));
                break;
              }
            }
            if (ds.main_dump != n - 1 && present.count(n - 1))
              ++from_backup;
          } else if (B == 0 && n >= 2) {
            // nothing is promised once the truncating open has happened
            const bool before_open =
                o.index < open_of[n] || (o.index == open_of[n] && variant == 0);
            if (before_open && !present.count(n - 1))
              fail("last-dump-lost",
                   sfmt("no backups configured, process dies before the new "
                        "dump %d is opened, but dump %d is gone; directory: %s",
                        n, n - 1, got.c_str()));
          }
          rm_dir(dc);
        }
      }
    }

    out.vclass = vclass;
    out.message = message;
    out.hash = fnv1a(hash, (uint64_t)(B * 1000 + D));
    out.nontrivial = crashes > 0 && D >= 2;
    Json st = Json::object();
    st["children"] = children;
    st["crash_children"] = crashes;
    st["torn_writes"] = torn;
    st["previous_dump_found_in_backup"] = from_backup;
    st[sfmt("backups_%d", B)] = 1;
    st["histories_with_process_restart"] = restarts ? 1 : 0;
    out.stats = st;
    out.signature = sig;
    return out;
  }

  std::vector< Json > shrink(const Json &c) {
    std::vector< Json > v;
    const int B = (int)c.at("B").as_int(), D = (int)c.at("D").as_int();
    for (int d = 1; d < D; ++d) {
      Json m = c;
      m["D"] = d;
      v.push_back(m);
    }
    for (int b = 0; b < B; ++b) {
      Json m = c;
      m["B"] = b;
      v.push_back(m);
    }
    if (c.has("restarts") && c.at("restarts").as_int(0) != 0) {
      Json m = c;
      m["restarts"] = 0;
      v.push_back(m);
    }
    return v;
  }

  void describe(Json &cov, Json &assumptions) const {
    cov["rule"] =
        "each case = (configured backups B in 0..8, number of dumps D in "
        "0..20, payload sizes 0..70 kB straddling the 8 kB stream buffer, 0-2 "
        "points at which the process is replaced by a new one restarted in "
        "place, i.e. a new RestartManager over the same folder); a "
        "fault-free pass checks the rotation after every dump against a "
        "vector model, then for EVERY file-system operation (open, write, "
        "writev, close, rename) of EVERY dump the history is re-run in a "
        "fresh child that dies before / after / in the middle of (torn "
        "write) that operation and the surviving directory is inspected. The "
        "complete (B, D) grid is part of every thorough run (a subset in "
        "quick). distinct = distinct hash of the observed directory states; "
        "non-trivial = >=1 crash child and >=2 dumps";
    Json comp = Json::object();
    comp["real"] = "RestartManager, RestartWriter (std::ofstream), real "
                   "kernel file system and rename(2) semantics";
    comp["stub"] = "process death = _exit at a numbered file-system "
                   "operation (libc entry points fopen64/write/writev/"
                   "fclose/rename defined in the harness executable)";
    cov["components"] = comp;
    cov["fault_kinds"] = "process death before / after each file-system "
                         "operation of a dump, torn write (seeded prefix of "
                         "the bytes reaches the file), process replaced by a "
                         "restarted one between two dumps";
    assumptions.push("data handed to the kernel survives the death of the "
                     "process (no power loss / fsync model; the property "
                     "speaks about the process dying)");
  }
};

} // namespace

int main(int argc, char **argv) {
  EFsEngine e;
  return check_main(argc, argv, e);
}
