// Dataset-level comparison of two HDF5 files (C13, pairs of runs that differ
// only in the simulated wall clock): every group, dataset and attribute of
// one file must exist in the other with the same shape, type size and raw
// values - except the attributes named in `ignore` (the creation time stamp,
// which is an input of the Gadget writer).
#ifndef VERIF_HDF5_COMPARE_HPP
#define VERIF_HDF5_COMPARE_HPP

#include <hdf5.h>

#include <cstring>
#include <set>
#include <string>
#include <vector>

namespace h5cmp {

struct Result {
  bool equal = true;
  std::string what; // first difference
  long groups = 0, datasets = 0, attributes = 0, ignored = 0;
  long long bytes = 0;
  void differ(const std::string &w) {
    if (equal) {
      equal = false;
      what = w;
    }
  }
};

inline bool read_attr(hid_t attr, std::vector< char > &raw,
                      std::vector< std::string > &strings) {
  hid_t type = H5Aget_type(attr);
  hid_t space = H5Aget_space(attr);
  const hssize_t n = H5Sget_simple_extent_npoints(space);
  bool ok = true;
  if (H5Tis_variable_str(type) > 0) {
    std::vector< char * > p((size_t)(n > 0 ? n : 1), nullptr);
    ok = H5Aread(attr, type, p.data()) >= 0;
    for (hssize_t k = 0; k < n && ok; ++k)
      strings.push_back(p[(size_t)k] ? p[(size_t)k] : "");
    if (ok)
      H5Dvlen_reclaim(type, space, H5P_DEFAULT, p.data());
  } else {
    raw.assign((size_t)(n > 0 ? n : 0) * H5Tget_size(type), 0);
    if (!raw.empty())
      ok = H5Aread(attr, type, raw.data()) >= 0;
  }
  H5Sclose(space);
  H5Tclose(type);
  return ok;
}

inline void compare_attributes(hid_t a, hid_t b, const std::string &path,
                               const std::set< std::string > &ignore,
                               Result &r) {
  const int na = H5Aget_num_attrs(a), nb = H5Aget_num_attrs(b);
  if (na != nb) {
    r.differ(path + ": " + std::to_string(na) + " vs " + std::to_string(nb) +
             " attributes");
    return;
  }
  for (int i = 0; i < na && r.equal; ++i) {
    hid_t aa = H5Aopen_by_idx(a, ".", H5_INDEX_NAME, H5_ITER_INC, (hsize_t)i,
                              H5P_DEFAULT, H5P_DEFAULT);
    char name[256];
    H5Aget_name(aa, sizeof name, name);
    if (ignore.count(name)) {
      ++r.ignored;
      H5Aclose(aa);
      continue;
    }
    if (H5Aexists(b, name) <= 0) {
      r.differ(path + ": attribute '" + name + "' only in one file");
      H5Aclose(aa);
      return;
    }
    hid_t ab = H5Aopen(b, name, H5P_DEFAULT);
    std::vector< char > ra, rb;
    std::vector< std::string > sa, sb;
    if (!read_attr(aa, ra, sa) || !read_attr(ab, rb, sb))
      r.differ(path + ": attribute '" + name + "' cannot be read");
    else if (ra != rb || sa != sb)
      r.differ(path + ": attribute '" + name + "' differs");
    ++r.attributes;
    r.bytes += (long long)ra.size();
    H5Aclose(ab);
    H5Aclose(aa);
  }
}

inline void compare_datasets(hid_t a, hid_t b, const std::string &path,
                             Result &r) {
  hid_t ta = H5Dget_type(a), tb = H5Dget_type(b);
  hid_t sa = H5Dget_space(a), sb = H5Dget_space(b);
  const int rank = H5Sget_simple_extent_ndims(sa);
  hsize_t da[8] = {0}, db[8] = {0};
  if (rank != H5Sget_simple_extent_ndims(sb) || rank > 8) {
    r.differ(path + ": rank differs");
  } else {
    H5Sget_simple_extent_dims(sa, da, nullptr);
    H5Sget_simple_extent_dims(sb, db, nullptr);
    if (std::memcmp(da, db, sizeof da) != 0)
      r.differ(path + ": shape differs");
  }
  if (r.equal && (H5Tget_size(ta) != H5Tget_size(tb) ||
                  H5Tget_class(ta) != H5Tget_class(tb)))
    r.differ(path + ": datatype differs");
  if (r.equal) {
    const hssize_t n = H5Sget_simple_extent_npoints(sa);
    std::vector< char > ba((size_t)(n > 0 ? n : 0) * H5Tget_size(ta)), bb(ba);
    if (!ba.empty()) {
      if (H5Dread(a, ta, H5S_ALL, H5S_ALL, H5P_DEFAULT, ba.data()) < 0 ||
          H5Dread(b, tb, H5S_ALL, H5S_ALL, H5P_DEFAULT, bb.data()) < 0)
        r.differ(path + ": cannot be read");
      else if (ba != bb) {
        size_t o = 0;
        while (o < ba.size() && ba[o] == bb[o])
          ++o;
        r.differ(path + ": values differ (element " +
                 std::to_string(o / H5Tget_size(ta)) + ")");
      }
    }
    r.bytes += (long long)ba.size();
  }
  ++r.datasets;
  H5Sclose(sa);
  H5Sclose(sb);
  H5Tclose(ta);
  H5Tclose(tb);
}

inline void compare_groups(hid_t a, hid_t b, const std::string &path,
                           const std::set< std::string > &ignore, Result &r) {
  ++r.groups;
  compare_attributes(a, b, path, ignore, r);
  hsize_t na = 0, nb = 0;
  H5Gget_num_objs(a, &na);
  H5Gget_num_objs(b, &nb);
  if (na != nb) {
    r.differ(path + ": " + std::to_string(na) + " vs " + std::to_string(nb) +
             " members");
    return;
  }
  for (hsize_t i = 0; i < na && r.equal; ++i) {
    char name[256];
    H5Gget_objname_by_idx(a, i, name, sizeof name);
    const std::string child = path + "/" + name;
    const H5G_obj_t type = H5Gget_objtype_by_idx(a, i);
    if (H5Lexists(b, name, H5P_DEFAULT) <= 0) {
      r.differ(child + ": only in one file");
      return;
    }
    if (type == H5G_GROUP) {
      hid_t ga = H5Gopen2(a, name, H5P_DEFAULT);
      hid_t gb = H5Gopen2(b, name, H5P_DEFAULT);
      if (gb < 0)
        r.differ(child + ": group in one file only");
      else
        compare_groups(ga, gb, child, ignore, r);
      if (gb >= 0)
        H5Gclose(gb);
      H5Gclose(ga);
    } else if (type == H5G_DATASET) {
      hid_t da = H5Dopen2(a, name, H5P_DEFAULT);
      hid_t db = H5Dopen2(b, name, H5P_DEFAULT);
      if (db < 0) {
        r.differ(child + ": dataset in one file only");
      } else {
        compare_attributes(da, db, child, ignore, r);
        if (r.equal)
          compare_datasets(da, db, child, r);
        H5Dclose(db);
      }
      H5Dclose(da);
    } else {
      r.differ(child + ": unexpected object type");
    }
  }
}

inline Result compare_files(const std::string &fa, const std::string &fb,
                            const std::set< std::string > &ignore) {
  Result r;
  H5Eset_auto2(H5E_DEFAULT, nullptr, nullptr);
  hid_t a = H5Fopen(fa.c_str(), H5F_ACC_RDONLY, H5P_DEFAULT);
  hid_t b = H5Fopen(fb.c_str(), H5F_ACC_RDONLY, H5P_DEFAULT);
  if (a < 0 || b < 0) {
    r.differ("cannot open as HDF5");
  } else {
    hid_t ga = H5Gopen2(a, "/", H5P_DEFAULT), gb = H5Gopen2(b, "/", H5P_DEFAULT);
    compare_groups(ga, gb, "", ignore, r);
    H5Gclose(ga);
    H5Gclose(gb);
  }
  if (a >= 0)
    H5Fclose(a);
  if (b >= 0)
    H5Fclose(b);
  return r;
}

} // namespace h5cmp

#endif
