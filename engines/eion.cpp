// E-ION: whole TaskBasedIonizationSimulation runs under the simulator.
// Serves C01 (packet ledger), C03 (reference model + hand-over invariants),
// selected by VERIF_PROPERTY (default C01).
#include "hdf5_compare.hpp"
#include "ion_model.hpp"

#include "TaskBasedIonizationSimulation.hpp"

#include <dirent.h>
#include <malloc.h>
#include <sys/stat.h>
#include <unistd.h>

using namespace detsim;
using namespace ion;

namespace {

const char *C01_CLASSES[] = {"launch-count", "not-all-terminated", "done-count",
                             "leftover", "terminated-twice", "unknown-packet",
                             "packet-duplicated", "packet-after-termination",
                             "termination-cause", "task-nesting", "launch",
                             "buffer-overflow", "nontermination", "packet-never-ends", "lock-not-held",
                             "source-buffer-shared", nullptr};
const char *C12_CLASSES[] = {"crash", "abort", "sanitizer", "hang", "bad-exit",
                             "missing-output", "uninitialised-dependent",
                             "memcheck", nullptr};
const char *C13_CLASSES[] = {"output-differs", nullptr};
const char *C03_CLASSES[] = {"handover", "neighbour-table", "copy-structure",
                             "estimator-mismatch", "outcome-mismatch", "copy-state",
                             "position-mismatch", nullptr};

bool in_list(const char **list, const std::string &s) {
  for (int k = 0; list[k]; ++k)
    if (s == list[k])
      return true;
  return false;
}

std::string read_file(const std::string &path) {
  std::ifstream f(path, std::ios::binary);
  return std::string((std::istreambuf_iterator< char >(f)),
                     std::istreambuf_iterator< char >());
}
// snapshot files (snap_*) of a run directory: name -> bytes
std::map< std::string, std::string > snapshot_files(const std::string &dir) {
  std::map< std::string, std::string > m;
  DIR *dp = opendir(dir.c_str());
  if (!dp)
    return m;
  while (struct dirent *e = readdir(dp)) {
    std::string n = e->d_name;
    if (n.compare(0, 5, "snap_") == 0)
      m[n] = read_file(dir + "/" + n);
  }
  closedir(dp);
  return m;
}
void remove_snapshots(const std::string &dir) {
  for (auto &kv : snapshot_files(dir))
    unlink((dir + "/" + kv.first).c_str());
}

// ------------------------------------------------------- reference model ---
struct RefResult {
  double max_rel[NUMBER_OF_IONNAMES + 1];
  long compared_cells = 0, segments = 0, ties = 0;
};

void reference_check(Ledger &L, int iloop) {
  const Cfg &c = L.lay.cfg;
  const double box[6] = {c.anchor[0], c.anchor[1], c.anchor[2],
                         c.sides[0],  c.sides[1],  c.sides[2]};
  DensitySubGrid ref(box, CoordinateVector< int_fast32_t >(
                              c.ncell[0], c.ncell[1], c.ncell[2]));
  for (int d = 0; d < TRAVELDIRECTION_NUMBER; ++d)
    ref.set_neighbour(d, NEIGHBOUR_OUTSIDE);
  for (auto it = ref.begin(); it != ref.end(); ++it) {
    const long gi = L.global_cell(it.get_cell_midpoint());
    IonizationVariables &v = it.get_ionization_variables();
    v.set_number_density(L.snap_density[(size_t)gi]);
    v.set_ionic_fraction(ION_H_n, L.snap_xH[(size_t)gi]);
#ifdef HAS_HELIUM
    v.set_ionic_fraction(ION_He_n, L.snap_xHe[(size_t)gi]);
#endif
  }
  ref.reset_intensities();
  const size_t ncells = (size_t)c.ncell[0] * c.ncell[1] * c.ncell[2];
  std::vector< double > allow[NUMBER_OF_IONNAMES + 1];
  for (int q = 0; q <= NUMBER_OF_IONNAMES; ++q)
    allow[q].assign(ncells, 0.);
  long nseg = 0;
  double geom_allow[NUMBER_OF_IONNAMES + 1] = {0.};
  double geom_allow_w = 0.;
  for (Segment &s : L.segments) {
    ++nseg;
    PhotonPacket p;
    int outcome = -1;
    long hops = 0;
    auto trace = [&](const double *start, double weight) {
      p.set_position(CoordinateVector<>(start[0], start[1], start[2]));
      p.set_direction(CoordinateVector<>(s.dir[0], s.dir[1], s.dir[2]));
      p.set_target_optical_depth(s.tau);
      p.set_weight(weight);
      p.set_energy(s.energy);
      p.set_type(PHOTONTYPE_PRIMARY);
      p.set_scatter_counter(0);
      for (int ion = 0; ion < NUMBER_OF_IONNAMES; ++ion)
        p.set_photoionization_cross_section(ion, s.sigma[ion]);
      int in_dir = TRAVELDIRECTION_INSIDE;
      outcome = -1;
      hops = 0;
      for (int hop = 0; hop < 20000000; ++hop, ++hops) {
        const int d = (int)ref.interact(p, in_dir);
        if (getenv("EION_DEBUG_ID") &&
            (uint64_t)atol(getenv("EION_DEBUG_ID")) == s.id)
          fprintf(stderr, "  hop %d in_dir %d -> out %d pos(cells) %.15f %.15f %.15f tau_left %.17g\n",
                  hop, in_dir, d,
                  (p.get_position()[0] - c.anchor[0]) / L.lay.cell[0],
                  (p.get_position()[1] - c.anchor[1]) / L.lay.cell[1],
                  (p.get_position()[2] - c.anchor[2]) / L.lay.cell[2],
                  p.get_target_optical_depth());
        if (d == TRAVELDIRECTION_INSIDE) {
          outcome = 0;
          break;
        }
        int sg[3];
        signs_from_dir(d, sg);
        bool escapes = false;
        for (int k = 0; k < 3; ++k)
          if (sg[k] != 0 && !c.periodic[k])
            escapes = true;
        if (escapes) {
          outcome = 1;
          break;
        }
        in_dir = dir_from_signs(-sg[0], -sg[1], -sg[2]);
        L.stats["reference_wraps"]++;
      }
    };
    if (getenv("EION_DEBUG_ID") &&
        (uint64_t)atol(getenv("EION_DEBUG_ID")) == s.id) {
      long g[3];
      for (int k = 0; k < 3; ++k)
        g[k] = (long)std::floor((s.pos[k] - c.anchor[k]) / L.lay.cell[k] + 0.5);
      for (long dx = -1; dx <= 0; ++dx)
        for (long dy = -1; dy <= 0; ++dy)
          for (long z = 0; z < c.ncell[2]; ++z) {
            long gx = g[0] + dx, gy = g[1] + dy;
            if (gx < 0 || gy < 0)
              continue;
            size_t gi = (size_t)((gx * c.ncell[1] + gy) * c.ncell[2] + z);
            fprintf(stderr, "  column (%ld,%ld) z=%ld tau_cell=%g xH=%g\n", gx, gy, z,
                    L.snap_density[gi] * L.snap_xH[gi] * s.sigma[ION_H_n] * L.lay.cell[2], L.snap_xH[gi]);
          }
    }
    trace(s.pos, s.weight);
    // A packet that starts on (within round-off of) an open box wall is either
    // traced or leaves at once, depending on how its position rounds relative
    // to the anchor of the block it starts in. That decision is not about the
    // split into subgrids: make the reference follow the system's decision.
    {
      bool start_tie = false;
      double nudged[3] = {s.pos[0], s.pos[1], s.pos[2]};
      for (int k = 0; k < 3; ++k) {
        if (c.periodic[k])
          continue;
        const double lo = s.pos[k] - c.anchor[k];
        const double hi = c.anchor[k] + c.sides[k] - s.pos[k];
        // move the start inside by a few hundred units in the last place of
        // the position scale (far below the comparison tolerances)
        const double nudge =
            256. * 2.3e-16 * (std::fabs(c.anchor[k]) + c.sides[k]);
        if (std::fabs(lo) <= 1e-9 * L.lay.cell[k]) {
          start_tie = true;
          nudged[k] = c.anchor[k] + nudge;
        } else if (std::fabs(hi) <= 1e-9 * L.lay.cell[k]) {
          start_tie = true;
          nudged[k] = c.anchor[k] + c.sides[k] - nudge;
        }
      }
      auto same_point = [&](const double *a, const CoordinateVector<> &b) {
        for (int k = 0; k < 3; ++k)
          if (std::fabs(a[k] - b[k]) > 1e-9 * L.lay.cell[k])
            return false;
        return true;
      };
      const bool sys_zero =
          s.outcome == 1 &&
          same_point(s.pos, CoordinateVector<>(s.end_pos[0], s.end_pos[1],
                                               s.end_pos[2]));
      const bool ref_zero = outcome == 1 && same_point(s.pos, p.get_position());
      if (start_tie && sys_zero != ref_zero) {
        ++L.stats["start_on_wall_ties"];
        if (ref_zero) {
          trace(nudged, s.weight);
        } else {
          trace(s.pos, -s.weight); // cancel the reference's deposit
          continue;
        }
      }
    }
    if (getenv("EION_DEBUG")) {
      fprintf(stderr, "seg it=%d id=%llu start(cells)=%.12f %.12f %.12f dir=%.6f %.6f %.6f tau=%.6g sys=%d end=%.12f %.12f %.12f ref=%d end=%.12f %.12f %.12f hops=%ld tau_left=%g sigH=%g\n",
              iloop, (unsigned long long)s.id,
              (s.pos[0] - c.anchor[0]) / L.lay.cell[0], (s.pos[1] - c.anchor[1]) / L.lay.cell[1], (s.pos[2] - c.anchor[2]) / L.lay.cell[2],
              s.dir[0], s.dir[1], s.dir[2], s.tau, s.outcome,
              (s.end_pos[0] - c.anchor[0]) / L.lay.cell[0], (s.end_pos[1] - c.anchor[1]) / L.lay.cell[1], (s.end_pos[2] - c.anchor[2]) / L.lay.cell[2],
              outcome,
              (p.get_position()[0] - c.anchor[0]) / L.lay.cell[0], (p.get_position()[1] - c.anchor[1]) / L.lay.cell[1], (p.get_position()[2] - c.anchor[2]) / L.lay.cell[2], hops, p.get_target_optical_depth(), s.sigma[ION_H_n]);
    }
    if (s.outcome < 0) {
      L.fail("outcome-mismatch",
             sfmt("iteration %d: packet %llu has a segment without recorded "
                  "end",
                  iloop, (unsigned long long)s.id));
      return;
    }
    // Sensitivity of the absorption point to round-off: the running optical
    // depth sum carries an absolute error of about (cells crossed) x 1e-16 x
    // tau, which moves the absorption point by that amount divided by the
    // opacity of the absorbing cell - large in almost transparent cells.
    const double ncross =
        (double)(hops + 1) * (double)(c.ncell[0] + c.ncell[1] + c.ncell[2] + 3);
    const double dtau = 8.9e-16 * ncross * std::max(1., s.tau);
    auto kappa_near = [&](const double *pos) {
      double kmin = -1.;
      for (int side = -1; side <= 1; side += 2) {
        CoordinateVector<> q;
        for (int k = 0; k < 3; ++k) {
          q[k] = pos[k] + side * 1e-6 * L.lay.cell[k] * s.dir[k];
          if (c.periodic[k]) {
            const double rel = q[k] - c.anchor[k];
            q[k] = c.anchor[k] + rel - c.sides[k] * std::floor(rel / c.sides[k]);
          }
        }
        const size_t gi = (size_t)L.global_cell(q);
        double kap = L.snap_density[gi] * L.snap_xH[gi] * s.sigma[ION_H_n];
#ifdef HAS_HELIUM
        kap += L.snap_density[gi] * L.snap_xHe[gi] * s.sigma[ION_He_n];
#endif
        if (kmin < 0. || kap < kmin)
          kmin = kap;
      }
      return kmin;
    };
    const double celld = L.lay.cell[0] + L.lay.cell[1] + L.lay.cell[2];
    // Geometric amplification: wall crossing times are (wall - position) /
    // direction, so position round-off accumulated over the crossings is
    // amplified by 1/|direction component| for packets that travel almost
    // parallel to a set of walls (a periodic box lets them do that for
    // thousands of box lengths).
    double geom = 0.;
    {
      double mindir = 1.;
      for (int k = 0; k < 3; ++k)
        if (s.dir[k] != 0.)
          mindir = std::min(mindir, std::fabs(s.dir[k]));
      double posscale = 0.;
      for (int k = 0; k < 3; ++k)
        posscale = std::max(posscale, std::fabs(c.anchor[k]) + c.sides[k]);
      geom = std::min(celld, ncross * 4.4e-16 * posscale / mindir);
      geom_allow_w += 2. * geom;
      for (int q = 0; q <= NUMBER_OF_IONNAMES; ++q) {
        const double v = q < NUMBER_OF_IONNAMES
                             ? s.sigma[q] * s.weight
                             : s.sigma[ION_H_n] * s.weight *
                                   std::fabs(s.energy - 3.288e15);
        geom_allow[q] += 2. * geom * std::fabs(v);
      }
    }
    double rp[3] = {p.get_position()[0], p.get_position()[1],
                    p.get_position()[2]};
    // A wall crossing displaced by geom inside an opaque cell changes the
    // optical depth sum by geom x (opacity there); the absorption point, in a
    // possibly far more transparent cell, then moves by that divided by the
    // opacity of the absorbing cell. Bound the ratio with the largest opacity
    // on the grid for this packet's cross sections.
    double kap_max = 0.;
    for (size_t gi = 0; gi < ncells; ++gi) {
      double kap = L.snap_density[gi] * L.snap_xH[gi] * s.sigma[ION_H_n];
#ifdef HAS_HELIUM
      kap += L.snap_density[gi] * L.snap_xHe[gi] * s.sigma[ION_He_n];
#endif
      kap_max = std::max(kap_max, kap);
    }
    auto slack_for = [&](const double kap) {
      if (!(kap > 0.))
        return celld;
      return std::min(celld, geom * std::max(1., kap_max / kap) + dtau / kap);
    };
    double slack = geom; // allowed displacement of the absorption point (m)
    if (outcome == 0)
      slack = slack_for(kappa_near(rp));
    if (s.outcome == 0)
      slack = std::max(slack, slack_for(kappa_near(s.end_pos)));
    if (outcome == 0) {
      // budget for the estimator comparison: the displaced piece of path may
      // be credited to the absorbing cell or to a cell next to it
      long g[3];
      for (int k = 0; k < 3; ++k) {
        double rel = (rp[k] - c.anchor[k]) / L.lay.cell[k];
        g[k] = std::min< long >(c.ncell[k] - 1, std::max< long >(0, (long)std::floor(rel)));
      }
      for (int dx = -1; dx <= 1; ++dx)
        for (int dy = -1; dy <= 1; ++dy)
          for (int dz = -1; dz <= 1; ++dz) {
            long h[3] = {g[0] + dx, g[1] + dy, g[2] + dz};
            bool ok = true;
            for (int k = 0; k < 3; ++k) {
              if (h[k] < 0 || h[k] >= c.ncell[k]) {
                if (c.periodic[k])
                  h[k] = (h[k] + c.ncell[k]) % c.ncell[k];
                else
                  ok = false;
              }
            }
            if (!ok)
              continue;
            const size_t hi = (size_t)((h[0] * c.ncell[1] + h[1]) * c.ncell[2] + h[2]);
            for (int ion = 0; ion < NUMBER_OF_IONNAMES; ++ion)
              allow[ion][hi] += slack * s.sigma[ion] * s.weight;
            allow[NUMBER_OF_IONNAMES][hi] +=
                slack * s.sigma[ION_H_n] * s.weight *
                std::fabs(s.energy - 3.288e15);
          }
    }
    if (outcome != s.outcome) {
      // tie: the absorption point lies on (or within the slack of) a wall
      // through which the packet would leave the box
      const double *chk = outcome == 0 ? rp : s.end_pos;
      bool tie = false;
      for (int k = 0; k < 3; ++k) {
        if (c.periodic[k])
          continue;
        const double lo = std::fabs(chk[k] - c.anchor[k]);
        const double hi = std::fabs(chk[k] - (c.anchor[k] + c.sides[k]));
        if (std::min(lo, hi) <= 1e-9 * L.lay.cell[k] + slack)
          tie = true;
      }
      if (tie) {
        ++L.stats["outcome_ties"];
        continue;
      }
      L.fail("outcome-mismatch",
             sfmt("iteration %d: packet %llu (start %.6g %.6g %.6g, direction "
                  "%.6g %.6g %.6g, tau %.6g) is %s in the simulated system but "
                  "%s in the undivided reference grid",
                  iloop, (unsigned long long)s.id, s.pos[0], s.pos[1],
                  s.pos[2], s.dir[0], s.dir[1], s.dir[2], s.tau,
                  s.outcome == 0 ? "absorbed" : "escaped",
                  outcome == 0 ? "absorbed" : "escaped"));
      return;
    }
    if (outcome == 0) {
      for (int k = 0; k < 3; ++k) {
        double d = rp[k] - s.end_pos[k];
        if (c.periodic[k])
          d -= c.sides[k] * std::round(d / c.sides[k]);
        if (std::fabs(d) > 1e-9 * L.lay.cell[k] + slack) {
          L.fail("position-mismatch",
                 sfmt("iteration %d: packet %llu is absorbed at coordinate "
                      "%d = %.17g in the simulated system and at %.17g in "
                      "the reference (%.3g cell sizes apart, round-off "
                      "allowance %.3g)",
                      iloop, (unsigned long long)s.id, k, s.end_pos[k], rp[k],
                      d / L.lay.cell[k], slack / L.lay.cell[k]));
          return;
        }
      }
      if (slack > 1e-3 * celld)
        ++L.stats["absorptions_in_transparent_cells"];
    }
  }
  L.stats["reference_segments"] += nseg;
  // per-cell estimators
  std::vector< double > refv[NUMBER_OF_IONNAMES + 1],
      sysv[NUMBER_OF_IONNAMES + 1];
  for (int q = 0; q <= NUMBER_OF_IONNAMES; ++q) {
    refv[q].assign(ncells, 0.);
    sysv[q].assign(ncells, 0.);
  }
  for (auto it = ref.begin(); it != ref.end(); ++it) {
    const size_t gi = (size_t)L.global_cell(it.get_cell_midpoint());
    const IonizationVariables &v = it.get_ionization_variables();
    for (int ion = 0; ion < NUMBER_OF_IONNAMES; ++ion)
      refv[ion][gi] = v.get_mean_intensity(ion);
    refv[NUMBER_OF_IONNAMES][gi] = v.get_heating(HEATINGTERM_H);
  }
  for (int sgi = 0; sgi < L.lay.norig(); ++sgi) {
    DensitySubGrid &g = *L.creator->get_subgrid((size_t)sgi);
    for (auto it = g.begin(); it != g.end(); ++it) {
      const size_t gi = (size_t)L.global_cell(it.get_cell_midpoint());
      const IonizationVariables &v = it.get_ionization_variables();
      for (int ion = 0; ion < NUMBER_OF_IONNAMES; ++ion)
        sysv[ion][gi] = v.get_mean_intensity(ion);
      sysv[NUMBER_OF_IONNAMES][gi] = v.get_heating(HEATINGTERM_H);
    }
  }
  // absolute floor: wall positions are computed in block-local coordinates,
  // so every wall crossing shifts a few units in the last place of the
  // position scale between the two cells involved
  double floor_q[NUMBER_OF_IONNAMES + 1];
  {
    double posscale = 0.;
    for (int k = 0; k < 3; ++k)
      posscale = std::max(posscale, std::fabs(c.anchor[k]) + c.sides[k]);
    const double ulp_pos = posscale * 2.3e-16;
    for (int q = 0; q <= NUMBER_OF_IONNAMES; ++q) {
      double mw = 0.;
      for (const Segment &sg : L.segments) {
        double v = q < NUMBER_OF_IONNAMES
                       ? sg.sigma[q] * sg.weight
                       : sg.sigma[ION_H_n] * sg.weight *
                             std::fabs(sg.energy - 3.288e15);
        mw = std::max(mw, std::fabs(v));
      }
      floor_q[q] = 16. * ulp_pos * mw * (double)L.segments.size() +
                   geom_allow[q];
    }
  }
  for (int q = 0; q <= NUMBER_OF_IONNAMES; ++q) {
    double mx = 0.;
    for (size_t i = 0; i < ncells; ++i)
      mx = std::max(mx, std::max(std::fabs(refv[q][i]), std::fabs(sysv[q][i])));
    if (mx == 0.)
      continue;
    for (size_t i = 0; i < ncells; ++i) {
      const double d = std::fabs(refv[q][i] - sysv[q][i]);
      if (!(d <= 1e-9 * mx + allow[q][i] + floor_q[q])) {
        L.fail("estimator-mismatch",
               sfmt("iteration %d: estimator %d of global cell %zu is %.17g in "
                    "the simulated system (subgrids %dx%dx%d, copy level %d) "
                    "and %.17g in the undivided reference grid (difference "
                    "%.3g of the grid maximum)",
                    iloop, q, i, sysv[q][i], refv[q][i], c.nsub[0], c.nsub[1],
                    c.nsub[2], c.copy_level, d / mx));
        return;
      }
      const long long ppb = (long long)(d / mx * 1e18);
      if (ppb > L.stats["max_estimator_reldiff_e18"])
        L.stats["max_estimator_reldiff_e18"] = ppb;
    }
    L.stats["cells_compared"] += (long long)ncells;
  }
}

// ---------------------------------------------------------------- engine ---
class EIonEngine : public Engine {
public:
  std::string prop, mode;
  EIonEngine() {
    const char *p = getenv("VERIF_PROPERTY");
    prop = p ? p : "C01";
    const char *m = getenv("VERIF_MODE");
    mode = m ? m : "";
  }
  std::string property() const { return prop; }
  void budget(const std::string &tier, uint64_t &runs, double &seconds) const {
    if (tier == "quick") {
      runs = 100000;
      seconds = 100;
    } else {
      runs = 10000000;
      seconds = 1700;
    }
  }
  int watchdog_seconds() const { return 240; }

  void setup() {
    std::string d = scratch_dir();
    if (chdir(d.c_str())) {
    }
  }

  static void pick_layout(Rng &r, Cfg &c, bool small) {
    for (int k = 0; k < 3; ++k) {
      static const int subs[] = {1, 1, 2, 2, 2, 3, 4};
      static const int cells[] = {2, 2, 3, 4, 4, 5};
      c.nsub[k] = subs[r.below(small ? 5 : 7)];
      c.ncell[k] = c.nsub[k] * cells[r.below(small ? 4 : 6)];
    }
  }

  Json generate(uint64_t run_seed, const std::string &tier, uint64_t index) {
    Rng r(run_seed);
    Cfg c;
    const bool thorough = tier == "thorough";
    c.dyadic = r.chance(0.6);
    pick_layout(r, c, !thorough && r.chance(0.5));
    if (c.dyadic) {
      // exactly representable coordinates: subgrid faces are exact
      for (int k = 0; k < 3; ++k) {
        // dyadic layouts need power-of-two subgrid counts and cell counts
        static const int subs2[] = {1, 2, 2, 4};
        static const int cells2[] = {2, 4, 4, 8};
        c.nsub[k] = subs2[r.below(4)];
        c.ncell[k] = c.nsub[k] * cells2[r.below(thorough ? 4 : 3)] / (c.nsub[k] == 4 ? 2 : 1);
        if (c.ncell[k] < c.nsub[k])
          c.ncell[k] = c.nsub[k];
        c.sides[k] = std::ldexp(1., 50 + (int)r.range(0, 2));
        c.anchor[k] = -std::ldexp((double)r.range(0, 8), 47);
      }
      if (r.chance(0.5)) {
        // cubic cells: lattice directions pass exactly through cell corners
        for (int k = 1; k < 3; ++k) {
          c.sides[k] = c.sides[0];
          c.ncell[k] = c.ncell[0];
          if (c.ncell[k] % c.nsub[k] != 0)
            c.nsub[k] = c.nsub[0];
        }
        c.special = r.chance(0.7) ? 0.2 : 0.;
      }
    } else {
      const double pc = 3.0856775814913673e16;
      for (int k = 0; k < 3; ++k) {
        c.sides[k] = pc * r.uniform(0.5, 12.);
        c.anchor[k] = c.sides[k] * r.uniform(-3., 3.);
      }
    }
    // periodicity: all eight combinations, biased towards open boxes
    const int pmask = r.chance(0.55) ? 0 : (int)r.below(8);
    for (int k = 0; k < 3; ++k)
      c.periodic[k] = (pmask >> k) & 1;
    const bool fully_periodic = pmask == 7;
    c.threads = (int)r.range(1, thorough ? 8 : 6);
    if (index % 17 == 3)
      c.threads = 1;
    static const long pk[] = {1,   2,   7,   13,  26,  27,  100, 169,
                              333, 500, 999, 1000, 1300, 2600, 5000};
    c.packets = pk[r.below(thorough ? 15 : 13)];
    c.iterations = (int)r.range(1, 3);
    c.copy_level = r.chance(0.5) ? 0 : (int)r.range(1, 3);
    // sources
    int nsrc = (int)r.range(0, 3);
    c.continuous = r.chance(0.3) ? (r.chance(0.7) ? 1 : 2) : 0;
    if (nsrc == 0 && c.continuous == 0)
      nsrc = 1;
    for (int i = 0; i < nsrc; ++i) {
      Cfg::Source s;
      for (int k = 0; k < 3; ++k) {
        if (r.chance(0.45)) {
          // exactly on a subgrid boundary (face / edge / corner classes)
          s.f[k] = (double)r.range(c.nsub[k] > 1 ? 1 : 0, c.nsub[k] - 1) /
                   (double)c.nsub[k];
          if (c.nsub[k] == 1)
            s.f[k] = 0.5;
        } else {
          s.f[k] = r.uniform(0.02, 0.98);
        }
      }
      s.lum = 1e48 * r.uniform(0.2, 5.);
      c.sources.push_back(s);
    }
    c.planar_axis = (int)r.below(3);
    c.planar_f = r.uniform(0.1, 0.9);
    c.diffuse = r.chance(0.35) ? (int)r.range(1, 2) : 0;
    c.reemit_p = r.uniform(0.1, 0.9);
    c.spectrum = r.chance(0.2) ? 1 : 0;
    c.nblocks = r.chance(0.4) ? (int)r.range(1, 3) : 0;
    c.block_seed = r.next();
    // optical depth of one box crossing (sigma = 6.3e-22 m^2)
    static const double taus[] = {0.05, 0.5, 2., 10., 100.};
    double tau_box = taus[r.below(5)];
    c.xH = r.chance(0.5) ? 1. : std::pow(10., -r.uniform(0., 4.));
    if (fully_periodic) {
      // a packet can only end by absorption: keep the box optically thick and
      // do not let earlier iterations ionise it
      tau_box = std::max(tau_box, 2.);
      c.iterations = 1;
      c.nblocks = 0;
      c.spectrum = 0;
    }
    const double lmin = std::min(c.sides[0], std::min(c.sides[1], c.sides[2]));
    c.density = tau_box / (6.3e-22 * c.xH * lmin);
    c.seed = (int)r.range(0, 100000);
    c.task_plot = false;
    c.writer = 0;
    if (prop == "C12") {
      // widen over run modes and optional components
      c.writer = r.chance(0.3) ? 1 : 0;
      c.initial_snapshot = r.chance(0.3);
      c.temperature = r.chance(0.3);
      c.trackers = r.chance(0.2) && c.nsub[0] * c.nsub[1] * c.nsub[2] > 0;
      if (r.chance(0.1)) {
        c.task_plot = true;
        c.packets = std::min< long >(c.packets, 333);
      }
    }
    if (prop == "C13") {
      // the property's premise: same seed, same input, one thread
      c.threads = 1;
      c.writer = r.chance(0.4) ? 1 : 0;
      c.temperature = r.chance(0.3);
      c.initial_snapshot = r.chance(0.3);
      c.packets = std::min< long >(c.packets, 2600);
    }
    c.sched = Sched::draw(r, 4000000ull);
    c.sched.total_cap = thorough ? 200000000ull : 60000000ull;
    // (drawn last so that the other fields of existing seeds do not change)
    if ((prop == "C01" || prop == "C12") && !c.task_plot && c.threads > 1) {
      c.tight_pools = r.chance(0.35);
      c.pool_slack = c.tight_pools && r.chance(0.5) ? 1 + (int)r.below(2) : 0;
    }
    if ((prop == "C03" || prop == "C12") && c.spectrum == 1)
      c.metals = r.chance(0.7);
    if (c.trackers && r.chance(0.8))
      c.tracker_variant = (int)r.range(1, 9);
    if (prop == "C12" && r.chance(0.4))
      c.fields_mask = (int)r.below(16);
    return c.to_json();
  }

  // one complete run; fills rs/ledger, returns finished
  struct OneRun {
    bool finished = false;
    RunStats rs;
    uint64_t ledger_hash = 0;
    std::map< std::string, std::string > files;
    bool ledger_failed = false;
    Violation violation;
    long iterations = 0;
  };
  OneRun run_once(const Cfg &c, const std::string &dir, int perturb,
                  double clock0, bool clock_jumps) {
    OneRun r;
    mkdir(dir.c_str(), 0700);
    remove_snapshots(dir);
    const std::string pf = c.write_files(dir);
    if (chdir(dir.c_str())) {
    }
    mallopt(M_PERTURB, perturb);
    Ledger L;
    L.lay.init(c);
    L.record_segments = false;
    int it_seen = 0;
    L.on_iteration_end = [&](Ledger &, int, const void *const *) {
      ++it_seen;
      clock_advance(clock_jumps ? (it_seen % 2 ? 4000. : -1500.) : 1.);
    };
    clock_enable(true);
    clock_set(clock0);
    run_begin(c.sched, &L);
    r.finished = guarded([&]() {
      TaskBasedIonizationSimulation sim(c.threads, pf, c.task_plot,
                                        c.initial_snapshot, nullptr);
      sim.initialize();
      sim.run();
    });
    r.rs = run_end();
    clock_enable(false);
    mallopt(M_PERTURB, 0);
    r.ledger_hash = L.ledger_hash;
    r.ledger_failed = L.failed;
    r.violation = L.violation;
    r.iterations = (long)L.stats["iterations"];
    r.files = snapshot_files(dir);
    return r;
  }

  // C13 (same seed, same input, one thread => identical snapshots) and the
  // C12 heap-perturbation mode: the same case is executed twice while the
  // simulator varies everything it owns that is not seed or input
  Outcome execute_twice(const Cfg &c0) {
    Outcome out;
    const std::string base = scratch_dir();
    Rng vr(mix64((uint64_t)c0.seed, 0x13));
    Cfg c1 = c0, c2 = c0;
    // second execution: other rdtsc jitter, other heap fill byte, extra
    // heap traffic before the run
    c2.sched.ticks_jitter = c0.sched.ticks_jitter ? 0 : 777;
    const bool clock_class_b = (prop == "C13") && vr.chance(0.5);
    const double t1 = 1.7e9, t2 = clock_class_b ? 1.7e9 + 86400. * 37.5 : 1.7e9;
    OneRun a = run_once(c1, base + "/runA", 0x00, t1, false);
    std::vector< void * > pad;
    for (int k = 0; k < 200; ++k)
      pad.push_back(malloc(16 + (size_t)vr.below(4000)));
    for (size_t k = 0; k < pad.size(); k += 2)
      free(pad[k]);
    // (same directory: its name is part of the parameter file, i.e. of the
    // input, and is stored in the snapshots)
    OneRun b = run_once(c2, base + "/runA", 0xA5, t2, clock_class_b);
    for (size_t k = 1; k < pad.size(); k += 2)
      free(pad[k]);
    if (chdir(base.c_str())) {
    }
    out.restart_worker = !a.finished || !b.finished;
    out.hash = fnv1a(a.rs.hash, a.ledger_hash);
    out.nontrivial = !a.files.empty();
    Json st = Json::object();
    st["pairs_executed"] = 1;
    st["clock_class_B_pairs"] = clock_class_b ? 1 : 0;
    st["gadget_writer_pairs"] = c0.writer == 1 ? 1 : 0;
    st["snapshot_files_compared"] = (long long)a.files.size();
    out.stats = st;
    out.signature = Json::object();
    if (!a.finished || !b.finished || a.ledger_failed || b.ledger_failed) {
      out.notes.push_back("a run of the pair did not complete cleanly "
                          "(decided by other properties)");
      return out;
    }
    const char *cls = prop == "C13" ? "output-differs" : "uninitialised-dependent";
    if (a.files.size() != b.files.size() || a.files.empty()) {
      out.vclass = cls;
      out.message = sfmt("two executions of the same case wrote %zu and %zu "
                         "snapshot files",
                         a.files.size(), b.files.size());
      return out;
    }
    for (auto &kv : a.files) {
      auto it = b.files.find(kv.first);
      if (it == b.files.end()) {
        out.vclass = cls;
        out.message = "snapshot " + kv.first + " missing in the second run";
        return out;
      }
      const bool hdf5 = kv.first.size() > 5 &&
                        kv.first.compare(kv.first.size() - 5, 5, ".hdf5") == 0;
      if (hdf5 && clock_class_b) {
        // the wall clock is an input of the Gadget writer (creation time
        // attribute, HDF5 object times): with a different simulated clock
        // only the size is compared here
        if (kv.second.size() != it->second.size()) {
          out.vclass = cls;
          out.message = sfmt("snapshot %s has %zu bytes in one run and %zu in "
                             "the other",
                             kv.first.c_str(), kv.second.size(),
                             it->second.size());
          return out;
        }
        long diff = 0;
        for (size_t k = 0; k < kv.second.size(); ++k)
          if (kv.second[k] != it->second[k])
            ++diff;
        st["hdf5_bytes_differing_with_other_clock"] = (long long)diff;
        // dataset level: everything except the creation time stamp must be
        // identical (groups, shapes, types, raw values, attributes)
        {
          const std::string fa = base + "/cmp_a.hdf5", fb = base + "/cmp_b.hdf5";
          {
            std::ofstream oa(fa, std::ios::binary), ob(fb, std::ios::binary);
            oa << kv.second;
            ob << it->second;
          }
          h5cmp::Result hr =
              h5cmp::compare_files(fa, fb, {"Creation time"});
          unlink(fa.c_str());
          unlink(fb.c_str());
          st["hdf5_datasets_compared"] = (long long)hr.datasets;
          st["hdf5_attributes_compared"] = (long long)hr.attributes;
          st["hdf5_attributes_ignored"] = (long long)hr.ignored;
          if (!hr.equal) {
            out.vclass = cls;
            out.message =
                sfmt("snapshot %s of two runs that differ only in the "
                     "simulated wall clock differs at the dataset level: %s",
                     kv.first.c_str(), hr.what.c_str());
            return out;
          }
          if (hr.ignored != 1) {
            out.vclass = cls;
            out.message = sfmt("snapshot %s: expected exactly one creation "
                               "time attribute, found %ld",
                               kv.first.c_str(), hr.ignored);
            return out;
          }
        }
        if (diff > 64) {
          out.vclass = cls;
          out.message = sfmt("snapshot %s differs in %ld bytes between two "
                             "runs that differ only in the simulated wall "
                             "clock (creation time and object times account "
                             "for at most a few dozen)",
                             kv.first.c_str(), diff);
          return out;
        }
        out.stats = st;
        continue;
      }
      if (kv.second != it->second) {
        size_t o = 0;
        while (o < kv.second.size() && o < it->second.size() &&
               kv.second[o] == it->second[o])
          ++o;
        out.vclass = cls;
        out.message =
            sfmt("snapshot %s differs between two executions of the same case "
                 "(seed %d, one thread%s): %zu vs %zu bytes, first difference "
                 "at byte %zu",
                 kv.first.c_str(), c0.seed,
                 clock_class_b ? ", different simulated wall clock" : "",
                 kv.second.size(), it->second.size(), o);
        return out;
      }
    }
    if (out.hash != fnv1a(b.rs.hash, b.ledger_hash) && c0.threads == 1) {
      out.vclass = cls;
      out.message = "event logs of two executions of the same one-thread case "
                    "differ";
    }
    return out;
  }

  // directed cases: regressions for repaired defects that the random swarm
  // meets only once in some 10^4 runs
  std::vector< Json > directed(const std::string &tier) {
    std::vector< Json > v;
    (void)tier;
    if (prop == "C01" && mode.empty()) {
      const char *root = getenv("VERIF_ROOT");
      const std::string path = std::string(root ? root : "/verif") +
                               "/directed/C01-source-on-subgrid-edge.json";
      try {
        v.push_back(Json::parse_file(path));
      } catch (...) {
      }
    }
    return v;
  }

  bool hash_free_class(const std::string &vclass) const {
    return vclass == "output-differs" || vclass == "uninitialised-dependent";
  }

  Outcome execute(const Json &cj) {
    Outcome out;
    Cfg c = Cfg::from_json(cj);
    if (prop == "C13" || (prop == "C12" && mode == "perturb"))
      return execute_twice(c);
    const std::string dir = scratch_dir();
    bool tight = false;
    if (c.tight_pools && c.nbuffers == 0 && c.ntasks == 0) {
      // measuring run: same case, same schedule, capacities that cannot be
      // exhausted; its verdict is not used (the run below decides)
      remove_snapshots(dir);
      const std::string pf0 = c.write_files(dir);
      scrub_memory(0xA5);
      Ledger M;
      M.lay.init(c);
      M.check_handover = true;
      run_begin(c.sched, &M);
      const bool fin0 = guarded([&]() {
        TaskBasedIonizationSimulation sim(c.threads, pf0, c.task_plot,
                                          c.initial_snapshot, nullptr);
        sim.initialize();
        sim.run();
      });
      run_end();
      if (getenv("EION_DEBUG_POOLS"))
        fprintf(stderr, "measuring run: finished %d failed %d (%s) max buffers %ld tasks %ld total %ld\n",
                (int)fin0, (int)M.failed, M.violation.message.c_str(), M.max_buffers_in_use, M.max_tasks_in_use, M.total_buffers_taken);
      if (fin0 && !M.failed && M.max_buffers_in_use > 0) {
        long nb, nt, nq;
        c.capacities(nb, nt, nq);
        const long margin = c.threads + 2; // of the exhaustion guard
        if (c.pool_slack == 0) {
          c.nbuffers = std::min(nb, 2 * M.max_buffers_in_use + 32);
          c.ntasks = std::min(nt, 2 * M.max_tasks_in_use + 64);
        } else {
          // nearly full pools: a slot that is given back is handed out
          // again at once
          const long fb = c.pool_slack == 1 ? M.max_buffers_in_use / 4 + 8 : 4;
          const long ft = c.pool_slack == 1 ? M.max_tasks_in_use / 4 + 8 : 4;
          c.nbuffers = std::min(nb, M.max_buffers_in_use + fb + margin);
          c.ntasks = std::min(nt, M.max_tasks_in_use + ft + margin);
        }
        c.queue = c.ntasks;
        tight = true;
      } else if (!fin0) {
        // The case does not finish even with ample pools. That is for the
        // runs without the reduced-pool knob to report (two thirds of the
        // swarm, same case space); a second run in this process image, on top
        // of the abandoned frames of the first, would not be trustworthy.
        out.notes.push_back("measuring run for reduced pools did not finish: "
                            "case skipped");
        out.restart_worker = true;
        out.hash = 0x9001;
        out.stats = Json::object();
        out.signature = Json::object();
        return out;
      }
    }
    remove_snapshots(dir);
    const std::string pf = c.write_files(dir);
    scrub_memory(0xA5);
    Ledger L;
    L.lay.init(c);
    {
      long nb, nt, nq;
      c.capacities(nb, nt, nq);
      L.cap_buffers = nb;
    }
    if (tight)
      L.pool_margin = c.threads + 2;
    {
      const char **ml = prop == "C03"   ? C03_CLASSES
                        : prop == "C01" ? C01_CLASSES
                                        : nullptr;
      if (ml)
        for (int k = 0; ml[k]; ++k)
          L.my_classes.insert(ml[k]);
      else
        L.my_classes.insert("(none)");
    }
    L.record_segments = (prop == "C03");
    L.check_handover = true;
    if (prop == "C03")
      L.on_iteration_end = [](Ledger &l, int iloop, const void *const *) {
        reference_check(l, iloop);
      };
    valgrind_mark();
    run_begin(c.sched, &L);
    bool finished = guarded([&]() {
      TaskBasedIonizationSimulation sim(c.threads, pf, c.task_plot,
                                        c.initial_snapshot, nullptr);
      sim.initialize();
      sim.run();
    });
    RunStats rs = run_end();

    std::string vclass, message;
    std::string vgtext;
    const long vgerrors = valgrind_report(vgtext);
    if (vgerrors > 0) {
      vclass = "memcheck";
      message = sfmt("memcheck reported %ld error(s) during the run; first: ",
                     vgerrors) + vgtext;
    } else if (L.failed) {
      vclass = L.violation.vclass;
      message = L.violation.message;
    } else if (!finished && rs.inconclusive) {
      out.notes.push_back("run abandoned as inconclusive: still progressing "
                          "after the total point cap (a packet travelling "
                          "almost parallel to periodic walls)");
    } else if (!finished && tight && (L.pool_exhausted || L.pools_full())) {
      // the premise of the property (capacities are not exhausted) does not
      // hold for this schedule with the reduced pools
      out.notes.push_back("run with reduced pools ran out of buffer or task "
                          "slots under this schedule: inconclusive");
    } else if (!finished) {
      vclass = "nontermination";
      message = sfmt("iteration %d did not end within the step budget (fair "
                     "phase included); %ld of %ld packets terminated",
                     L.iteration, L.done, L.requested);
    } else if (L.failed) {
      vclass = L.violation.vclass;
      message = L.violation.message;
    } else if (L.stats["iterations"] != c.iterations) {
      vclass = "not-all-terminated";
      message = sfmt("%lld of %d iterations reported an end record",
                     L.stats["iterations"], c.iterations);
    }
    if (prop == "C12" && vclass.empty() && finished) {
      // expected outputs exist and can be opened
      std::map< std::string, std::string > files = snapshot_files(dir);
      const size_t want = 1 + (c.initial_snapshot ? 1 : 0);
      if (files.size() < want) {
        vclass = "missing-output";
        message = sfmt("run ended normally but wrote %zu snapshot files, "
                       "expected %zu",
                       files.size(), want);
      }
      for (auto &kv : files)
        if (kv.second.empty() && vclass.empty()) {
          vclass = "missing-output";
          message = "snapshot " + kv.first + " is empty";
        }
    }
    // attribute to the property this check decides
    if (!vclass.empty()) {
      const char **mine = prop == "C03"   ? C03_CLASSES
                          : prop == "C12" ? C12_CLASSES
                                          : C01_CLASSES;
      if (in_list(mine, vclass)) {
        out.vclass = vclass;
        out.message = message;
      } else {
        out.notes.push_back("violation class '" + vclass +
                            "' seen (decided by another property's check)");
      }
    }
    for (auto &fc : L.foreign_classes_seen)
      out.notes.push_back("violation class '" + fc +
                          "' seen (decided by another property's check)");
    out.restart_worker = !finished;
    out.hash = fnv1a(rs.hash, L.ledger_hash);
    out.executed = rs.executed;
    out.nontrivial = rs.switches > 0 && c.threads > 1;
    Json st = Json::object();
    st["points"] = (long long)rs.points;
    st["switches"] = (long long)rs.switches;
    st["regions"] = (long long)rs.regions;
    st["fair_phase_runs"] = rs.fair_phase ? 1 : 0;
    st["max_points_per_run"] = (long long)rs.points;
    st["packets_terminated"] = (long long)L.done_total;
    if (tight) {
      st["runs_with_reduced_pools"] = 1;
      if (L.total_buffers_taken > L.cap_buffers)
        st["runs_in_which_the_buffer_pool_wrapped"] = 1;
    }
    for (auto &kv : L.stats)
      st[kv.first] = kv.second;
    for (int d = 0; d < TRAVELDIRECTION_NUMBER; ++d)
      if (L.exit_class_hist[d])
        st[sfmt("exit_class_%02d", d)] = (long long)L.exit_class_hist[d];
    for (auto &kv : rs.probes)
      st["probe_" + kv.first] = (long long)kv.second;
    st[sfmt("policy_%d", c.sched.policy)] = 1;
    st[sfmt("threads_%d", c.threads)] = 1;
    st[sfmt("periodic_axes_%d",
            (int)c.periodic[0] + (int)c.periodic[1] + (int)c.periodic[2])] = 1;
    st[sfmt("copy_level_%d", c.copy_level)] = 1;
    st[sfmt("diffuse_%d", c.diffuse)] = 1;
    st[sfmt("continuous_%d", c.continuous)] = 1;
    out.stats = st;
    Json sig = Json::object();
    out.signature = sig;
    return out;
  }

  std::vector< Json > shrink(const Json &cj) {
    std::vector< Json > v;
    Cfg c = Cfg::from_json(cj);
    auto push = [&](const Cfg &n) { v.push_back(n.to_json()); };
    if (c.iterations > 1) {
      Cfg n = c;
      n.iterations = 1;
      push(n);
      n = c;
      --n.iterations;
      push(n);
    }
    if (c.packets > 1) {
      for (long np : {1L, c.packets / 8, c.packets / 2, c.packets - 1}) {
        if (np >= 1 && np < c.packets) {
          Cfg n = c;
          n.packets = np;
          push(n);
        }
      }
    }
    if (c.threads > 1) {
      Cfg n = c;
      n.threads = 1;
      push(n);
      n = c;
      n.threads = c.threads - 1;
      push(n);
    }
    if (c.copy_level > 0) {
      Cfg n = c;
      n.copy_level = 0;
      push(n);
    }
    if (c.diffuse) {
      Cfg n = c;
      n.diffuse = 0;
      push(n);
    }
    if (c.continuous && !c.sources.empty()) {
      Cfg n = c;
      n.continuous = 0;
      push(n);
    }
    if (c.sources.size() > 1 || (c.sources.size() == 1 && c.continuous)) {
      for (size_t k = 0; k < c.sources.size(); ++k) {
        Cfg n = c;
        n.sources.erase(n.sources.begin() + (long)k);
        push(n);
      }
    }
    if (c.nblocks > 0) {
      Cfg n = c;
      n.nblocks = 0;
      push(n);
    }
    if (c.spectrum) {
      Cfg n = c;
      n.spectrum = 0;
      push(n);
    }
    for (int k = 0; k < 3; ++k) {
      if (c.nsub[k] > 1 && c.ncell[k] % (c.nsub[k] / 2 ? c.nsub[k] / 2 : 1) == 0) {
        Cfg n = c;
        n.nsub[k] = c.nsub[k] == 3 ? 1 : c.nsub[k] / 2;
        if (n.ncell[k] % n.nsub[k] == 0)
          push(n);
      }
      if (c.periodic[k]) {
        Cfg n = c;
        n.periodic[k] = false;
        push(n);
      }
    }
    return v;
  }

  void describe(Json &cov, Json &assumptions) const {
    if (prop == "C13") {
      cov["rule"] =
          "E-ION part of C13: each evaluation = one generated photoionization "
          "problem (same space as C01, one thread, AsciiFile or Gadget/HDF5 "
          "writer, with and without initial snapshot / temperature "
          "calculation) executed twice while the simulator varies everything "
          "it owns that is not seed or input: rdtsc values, heap fill byte "
          "(M_PERTURB 0x00 / 0xA5), heap layout (extra allocations), and - in "
          "half of the pairs (class B) - the simulated wall clock (other start "
          "time, forward and backward jumps). All snapshot files must be "
          "byte-identical; for Gadget snapshots of class B pairs only the "
          "creation-time attribute and HDF5 object times may differ (at most "
          "64 bytes, same size), and the two files are compared through the "
          "HDF5 library: all groups, datasets (shape, type, raw values) and "
          "attributes identical except the one 'Creation time' attribute. "
          "distinct = distinct event-log hash";
    } else if (prop == "C12" && mode == "perturb") {
      cov["rule"] =
          "heap-perturbation part of C12: each evaluation = one generated "
          "photoionization problem executed twice with malloc'd memory filled "
          "with 0x00 and with 0xA5 (M_PERTURB), other rdtsc values and other "
          "heap layout; any difference in the snapshots or the event log "
          "means a decision was taken on uninitialised memory";
    } else if (prop == "C12" && mode == "valgrind") {
      cov["rule"] =
          "memcheck part of C12 (task-based ionization mode): the whole "
          "check - workers, re-run children, replay processes - runs under "
          "valgrind memcheck (fiber stacks registered, pooled stacks marked "
          "undefined, no hostile fill); after every simulated run the engine "
          "asks memcheck whether it reported anything during that run "
          "(VALGRIND_COUNT_ERRORS): a conditional jump or system call on "
          "uninitialised memory, an invalid read/write or free is a "
          "violation, identified by the first report's innermost frames. "
          "Same generated problems as the sanitizer part";
    } else if (prop == "C12") {
      cov["rule"] =
          "sanitizer part of C12 (task-based ionization mode): whole runs "
          "from generated parameter files (space of C01 widened over Gadget / "
          "AsciiFile writer, initial snapshot, temperature calculation, "
          "trackers, task plot mode) built with AddressSanitizer + "
          "UndefinedBehaviorSanitizer, inside the simulator (1-8 simulated "
          "threads, seeded schedules, small photon buffers so that pools wrap "
          "and overflow paths run); stack and heap are pre-filled with 0xA5 "
          "so that uninitialised reads are hostile and reproducible. Oracle: "
          "normal return, no sanitizer report / signal / abort, expected "
          "snapshot files exist and are non-empty";
    } else if (prop == "C03") {
      cov["rule"] =
          "each run = one whole TaskBasedIonizationSimulation (generated "
          "parameter file: layout 1-4 subgrids per axis, all periodicity "
          "combinations, copy level 0-3, 0-3 point sources incl. exactly on "
          "subgrid faces/edges/corners, optional isotropic/planar external "
          "source, optional diffuse re-emission, 1-3 iterations, 1-8 simulated "
          "threads) under one seeded schedule; every launched or re-emitted "
          "packet segment is recorded and re-traced through one undivided "
          "DensitySubGrid with the same cell contents; per-cell estimators, "
          "absorbed/escaped outcome and absorption position are compared, "
          "every hand-over is checked against the geometry. distinct = "
          "distinct event-log hash; non-trivial = >=2 threads and >=1 context "
          "switch";
    } else {
      cov["rule"] =
          "each run = one whole TaskBasedIonizationSimulation (generated "
          "parameter file, same space as C03) under one seeded schedule; "
          "every packet carries an identity (hooks H3-H5) and the ledger "
          "checks launched == requested == terminated exactly once, the "
          "code's own counter, and that no buffer/task/queue entry/outgoing "
          "buffer survives the iteration. distinct = distinct event-log hash; "
          "non-trivial = >=2 threads and >=1 context switch";
    }
    Json comp = Json::object();
    comp["real"] =
        "whole ionization engine from /repo/src: parameter parsing, grid "
        "creator, copies, sources, spectra, cross sections, traversal, "
        "re-emission, premature launch, scheduler/queues/pools, temperature "
        "calculator, snapshot writer (PHOTONBUFFER_SIZE=13 via hook H2)";
    comp["stub"] = "libgomp (detsim fibers), rdtsc (simulated counter), MPI "
                   "disabled";
    cov["components"] = comp;
    cov["fault_kinds"] =
        "preemption at every AtomicValue operation, at optional plain-read "
        "points and (60 % of the runs) at every packet and task event inside "
        "task bodies (policies uniform/burst/pct/rr/after-release), task stealing, "
        "premature launch, buffer overflow; 35 % of the multi-threaded C01 / "
        "C12 runs with buffer and task pools reduced to twice the measured "
        "need (slot indices wrap, freed slots are reused at once)";
    assumptions.push("pool/queue capacities are generated above the possible "
                     "need (the property's premise)");
    assumptions.push("sequential consistency at the granularity of "
                     "AtomicValue operations");
    if (prop == "C03")
      assumptions.push("errors common to DensitySubGrid::interact on any grid "
                       "cancel between system and reference (that is C02)");
  }
};

} // namespace

int main(int argc, char **argv) {
  EIonEngine e;
  return check_main(argc, argv, e);
}
