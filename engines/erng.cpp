// E-RNG: RandomGenerator as a stateful component driven by histories of
// {draw x n, integer draw, save to a restart file, restore (latest or stale
// dump), reseed}. References: (a) GSL's gsl_rng_ranlxd2 (independent library
// implementation of RANLUX/ranlxd2), (b) an integer-arithmetic implementation
// of the recurrence written for this harness. Part of C13.
#include "../detsim/driver.hpp"

#include "RandomGenerator.hpp"

#include <cmath>
#include <cstdarg>
#include <gsl/gsl_rng.h>
#include <memory>
#include <unistd.h>

using namespace detsim;

namespace {

std::string sfmt(const char *f, ...) {
  char buf[1024];
  va_list ap;
  va_start(ap, f);
  vsnprintf(buf, sizeof buf, f, ap);
  va_end(ap);
  return buf;
}

// integer reference: 48-bit subtract-with-borrow, 397 steps per 12 values
struct IntRanlux {
  uint64_t X[12];
  unsigned c, ir, jr, ir_old;
  void seed(long seed) {
    if (seed == 0)
      seed = 1;
    long i = seed & 0x7FFFFFFFL;
    int xbit[31];
    for (int k = 0; k < 31; ++k) {
      xbit[k] = (int)(i % 2);
      i /= 2;
    }
    int ibit = 0, jbit = 18;
    for (int k = 0; k < 12; ++k) {
      uint64_t x = 0;
      for (int m = 1; m <= 48; ++m) {
        const int y = (xbit[ibit] + 1) % 2;
        x = 2 * x + (uint64_t)y;
        xbit[ibit] = (xbit[ibit] + xbit[jbit]) % 2;
        ibit = (ibit + 1) % 31;
        jbit = (jbit + 1) % 31;
      }
      X[k] = x;
    }
    c = 0;
    ir = 11;
    jr = 7;
    ir_old = 0;
  }
  void step() {
    int64_t d = (int64_t)X[jr] - (int64_t)X[ir] - (int64_t)c;
    if (d < 0) {
      c = 1;
      d += (1LL << 48);
    } else
      c = 0;
    X[ir] = (uint64_t)d;
    ir = (ir + 1) % 12;
    jr = (jr + 1) % 12;
  }
  double next() {
    ir = (ir + 1) % 12;
    if (ir == ir_old) {
      for (int k = 0; k < 397; ++k)
        step();
      ir_old = ir;
    }
    return (double)X[ir] / 281474976710656.0;
  }
};

enum { OP_DRAW = 0, OP_INT, OP_SAVE, OP_RESTORE, OP_STALE, OP_RESEED };

class ERngEngine : public Engine {
public:
  std::string property() const { return "C13"; }
  void budget(const std::string &tier, uint64_t &runs, double &seconds) const {
    if (tier == "quick") {
      runs = 40000;
      seconds = 30;
    } else {
      runs = 4000000;
      seconds = 600;
    }
  }
  std::string sched_key() const { return ""; }
  void setup() {
    std::string d = scratch_dir();
    if (chdir(d.c_str())) {
    }
  }

  Json generate(uint64_t run_seed, const std::string &tier, uint64_t index) {
    Rng r(run_seed);
    Json c = Json::object();
    static const long special[] = {0,          1,          2,         42,
                                   2147483647, 2147483646, 1073741824, 1073741823,
                                   65536,      65535,      3,         1u << 30};
    long seed = r.chance(0.3) ? special[r.below(12)] : (long)r.below(2147483648ull);
    c["seed"] = (long long)seed;
    Json ops = Json::array();
    const int n = (int)r.range(3, tier == "quick" ? 60 : 200);
    for (int i = 0; i < n; ++i) {
      const int k = (int)r.below(10);
      int op = OP_DRAW;
      long arg = 0;
      if (k < 5) {
        op = OP_DRAW;
        // straddle the 12-value refill boundary
        static const long ns[] = {1, 2, 5, 11, 12, 13, 23, 24, 25, 100, 397, 1000};
        arg = ns[r.below(12)];
      } else if (k < 6) {
        op = OP_INT;
        arg = (long)r.range(1, 13);
      } else if (k < 8) {
        op = OP_SAVE;
      } else if (k < 9) {
        op = r.chance(0.6) ? OP_RESTORE : OP_STALE;
        arg = (long)r.range(1, 5);
      } else {
        op = r.chance(0.3) ? OP_RESEED : OP_DRAW;
        arg = op == OP_RESEED ? (long)r.below(2147483648ull) : 7;
      }
      ops.push(op);
      ops.push((long long)arg);
    }
    c["ops"] = ops;
    return c;
  }

  Outcome execute(const Json &c) {
    Outcome out;
    long seed = (long)c.at("seed").as_int(42);
    std::vector< long > ops;
    for (auto &e : c.at("ops").a)
      ops.push_back((long)e.as_int());
    ops.resize(ops.size() / 2 * 2);
    const std::string dir = scratch_dir();

    std::unique_ptr< RandomGenerator > g(new RandomGenerator((int_fast32_t)seed));
    gsl_rng *gsl = gsl_rng_alloc(gsl_rng_ranlxd2);
    IntRanlux iref;
    // reference streams are regenerated from the seed up to the needed length
    std::vector< double > stream;
    auto reseed_refs = [&](long s) {
      gsl_rng_set(gsl, (unsigned long)s);
      iref.seed(s);
      stream.clear();
    };
    reseed_refs(seed);
    size_t pos = 0;
    std::string vclass, message;
    auto fail = [&](const std::string &cl, const std::string &m) {
      if (vclass.empty()) {
        vclass = cl;
        message = m;
      }
    };
    auto ref_at = [&](size_t p) {
      while (stream.size() <= p) {
        const double a = gsl_rng_uniform(gsl);
        const double b = iref.next();
        if (a != b)
          fail("reference-disagreement",
               sfmt("GSL ranlxd2 and the integer reference disagree at value "
                    "%zu (%.17g vs %.17g)",
                    stream.size(), a, b));
        stream.push_back(a);
      }
      return stream[p];
    };
    struct Dump {
      size_t pos;
      long seed;
      std::string file;
    };
    std::vector< Dump > dumps;
    long long draws = 0, saves = 0, restores = 0, stales = 0, reseeds = 0;
    uint64_t hash = FNV_INIT;
    long cur_seed = seed;
    auto draw_one = [&](bool as_int, size_t opi) {
      const double want = ref_at(pos);
      double got;
      if (as_int) {
        const int_fast32_t v = g->get_random_integer();
        const int_fast32_t w = (int_fast32_t)(want * 2147483648.0);
        got = want;
        if (v != w)
          fail("stream", sfmt("op %zu: integer draw %ld at stream position %zu, "
                              "reference %ld",
                              opi, (long)v, pos, (long)w));
        if (v < 0 || v > 2147483647)
          fail("range", sfmt("integer draw %ld outside [0, 2^31)", (long)v));
      } else {
        got = g->get_uniform_random_double();
        if (got != want)
          fail("stream",
               sfmt("op %zu: draw %.17g at stream position %zu of seed %ld, "
                    "RANLUX (ranlxd2) gives %.17g",
                    opi, got, pos, cur_seed, want));
        if (!(got >= 0. && got < 1.))
          fail("range", sfmt("draw %.17g outside [0,1)", got));
        const double tau = -std::log(got);
        if (got > 0. && !(tau > 0. && std::isfinite(tau)))
          fail("range", sfmt("-log(%.17g) = %g is not finite and positive", got,
                             tau));
      }
      hash = fnv1a_bytes(hash, &got, 8);
      ++pos;
      ++draws;
    };
    for (size_t k = 0; k + 1 < ops.size() && vclass.empty(); k += 2) {
      const long op = ops[k], arg = ops[k + 1];
      switch (op) {
      case OP_DRAW:
        for (long i = 0; i < arg && vclass.empty(); ++i)
          draw_one(false, k / 2);
        break;
      case OP_INT:
        for (long i = 0; i < arg && vclass.empty(); ++i)
          draw_one(true, k / 2);
        break;
      case OP_SAVE: {
        Dump d;
        d.pos = pos;
        d.seed = cur_seed;
        d.file = dir + sfmt("/rng_%zu.dump", dumps.size());
        {
          RestartWriter w(d.file);
          g->write_restart_file(w);
        }
        dumps.push_back(d);
        ++saves;
        break;
      }
      case OP_RESTORE:
      case OP_STALE: {
        if (dumps.empty())
          break;
        size_t from = dumps.size() - 1;
        if (op == OP_STALE) {
          from = dumps.size() - 1 -
                 (size_t)std::min< long >(arg, (long)dumps.size() - 1);
          ++stales;
        }
        {
          RestartReader rd(dumps[from].file);
          g.reset(new RandomGenerator(rd));
        }
        // write again: identical bytes
        {
          const std::string f2 = dir + "/rng_again.dump";
          {
            RestartWriter w(f2);
            g->write_restart_file(w);
          }
          std::ifstream a(dumps[from].file, std::ios::binary),
              b(f2, std::ios::binary);
          std::string sa((std::istreambuf_iterator< char >(a)),
                         std::istreambuf_iterator< char >()),
              sb((std::istreambuf_iterator< char >(b)),
                 std::istreambuf_iterator< char >());
          if (sa != sb || sa.empty())
            fail("restart-bytes",
                 sfmt("generator dump read back and written again differs "
                      "(%zu vs %zu bytes)",
                      sa.size(), sb.size()));
        }
        if (dumps[from].seed != cur_seed) {
          cur_seed = dumps[from].seed;
          reseed_refs(cur_seed);
        }
        pos = dumps[from].pos;
        ++restores;
        break;
      }
      case OP_RESEED: {
        g->set_seed((int_fast32_t)arg);
        cur_seed = arg;
        reseed_refs(cur_seed);
        pos = 0;
        ++reseeds;
        // different seeds give different streams within the first 24 values
        RandomGenerator other((int_fast32_t)((arg + 1) & 0x7FFFFFFF));
        RandomGenerator same((int_fast32_t)arg);
        bool differ = false;
        for (int i = 0; i < 24; ++i)
          if (other.get_uniform_random_double() !=
              same.get_uniform_random_double())
            differ = true;
        if (!differ && ((arg + 1) & 0x7FFFFFFF) != arg &&
            !(arg == 0 || ((arg + 1) & 0x7FFFFFFF) == 0))
          fail("seed-collision", sfmt("seeds %ld and %ld give the same first "
                                      "24 values",
                                      arg, (arg + 1) & 0x7FFFFFFF));
        break;
      }
      default:
        break;
      }
    }
    gsl_rng_free(gsl);
    out.vclass = vclass;
    out.message = message;
    out.hash = hash;
    out.nontrivial = restores > 0 && draws > 12;
    Json st = Json::object();
    st["draws"] = draws;
    st["saves"] = saves;
    st["restores"] = restores;
    st["stale_restores"] = stales;
    st["reseeds"] = reseeds;
    out.stats = st;
    out.signature = Json::object();
    return out;
  }

  std::vector< Json > shrink(const Json &c) {
    std::vector< Json > v;
    const Json &ops = c.at("ops");
    const size_t n = ops.a.size() / 2;
    for (size_t chunk = n / 2; chunk >= 1; chunk /= 2) {
      for (size_t s = 0; s + chunk <= n; s += chunk) {
        Json m = c;
        Json q = Json::array();
        for (size_t k = 0; k < n; ++k)
          if (k < s || k >= s + chunk) {
            q.push(ops.a[2 * k]);
            q.push(ops.a[2 * k + 1]);
          }
        m["ops"] = q;
        v.push_back(m);
      }
      if (chunk == 1)
        break;
    }
    return v;
  }

  void describe(Json &cov, Json &assumptions) const {
    cov["rule"] =
        "E-RNG part of C13: each run = one seed (special values 0, 1, 42, "
        "2^31-1, powers of two +-1, and seeded samples) and a history of draw "
        "(1..1000 values, straddling the 12-value refill boundary), integer "
        "draw, save, restore-latest, restore-stale and reseed operations; "
        "every value is compared bit for bit with GSL's gsl_rng_ranlxd2 and "
        "with an integer-arithmetic reference; dumps are read back and written "
        "again. distinct = distinct hash of the delivered values; non-trivial "
        "= >=1 restore and >12 draws";
    Json comp = Json::object();
    comp["real"] = "RandomGenerator, RestartWriter, RestartReader";
    comp["stub"] = "none (GSL and the integer model are oracles)";
    cov["components"] = comp;
    cov["fault_kinds"] = "save/restore at arbitrary stream positions, restore "
                         "from a stale dump, reseed";
    assumptions.push("'exactly the RANLUX (ranlxd2) sequence' is taken to "
                     "mean GSL's gsl_rng_ranlxd2 stream for seeds 0..2^31-1");
  }
};

} // namespace

int main(int argc, char **argv) {
  ERngEngine e;
  return check_main(argc, argv, e);
}
