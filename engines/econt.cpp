// E-CONT: the shared scheduler containers under simulated client fibers.
// Decides C08. Real code: AtomicValue, ThreadLock, ThreadSafeVector,
// TaskQueue, Task, MemorySpace, PhotonBuffer, Scheduler. Nothing is stubbed;
// the workload (client programs) is synthetic.
#include "../detsim/driver.hpp"

#include "MemorySpace.hpp"
#include "Scheduler.hpp"
#include "Task.hpp"
#include "TaskQueue.hpp"
#include "ThreadLock.hpp"
#include "ThreadSafeVector.hpp"

#include <cstdarg>
#include <memory>
#include <set>
#include <sstream>

using namespace detsim;

namespace {

enum Op {
  OP_GET = 0,
  OP_FREE,
  OP_SGET,
  OP_SFREE,
  OP_BGET,
  OP_BADD,
  OP_BFREE,
  OP_TADD,
  OP_TGET,
  OP_TTRY,
  OP_TSCHED,
  OP_LOCK,
  OP_TRYLOCK,
  OP_UNLOCK,
  OP_CNT,
  OP_YIELD,
  OP_NUMBER,
  OP_BARRIER = 99
};
const char *op_names[] = {"get",  "free",  "sget",   "sfree", "bget",   "badd",
                          "bfree", "tadd", "tget",   "ttry",  "tsched", "lock",
                          "trylock", "unlock", "cnt", "yield"};

struct Violated {
  std::string vclass, message;
};

const int QUEUED = -2, FREE_SLOT = -1;

struct World {
  int nclients, pool_size, small_size, nbufs, nres, nraw, cap, bufcap, qcap;
  std::unique_ptr< ThreadSafeVector< Task > > pool, small;
  std::unique_ptr< MemorySpace > bufs;
  std::vector< TaskQueue * > queues; // per client
  std::unique_ptr< TaskQueue > shared;
  std::vector< ThreadLock > res, raw;
  AtomicValue< size_t > counter_inc, counter_add, counter_max;
  std::unique_ptr< Scheduler > scheduler;

  // ---- model ----
  std::vector< int > pool_owner, small_owner, buf_owner;
  struct TaskInfo {
    long uid = -1;
    int r0 = -1, r1 = -1;
    int queue = -1; // -1 = shared
    bool queued = false;
  };
  std::vector< TaskInfo > tinfo;
  std::vector< std::vector< double > > buf_contents;
  std::vector< long > buf_subgrid;
  std::vector< int > raw_holder;
  std::vector< int > executing; // per client: task slot being executed or -1
  long next_uid = 1;
  long queued_total = 0;
  std::vector< size_t > inc_returns;
  long add_total = 0;
  size_t max_arg = 0;
  long small_unavailable = 0;
  std::vector< char > sget_active;
  std::vector< long > sget_peak;
  // barrier
  int barrier_count = 0;
  long barrier_gen = 0;
  // per client holdings
  std::vector< std::vector< size_t > > held_pool, held_small, held_buf;
  std::vector< int > held_raw;
  // result
  bool failed = false;
  Violated violation;
  // stats
  std::map< std::string, long long > stats;

  void fail(const std::string &vclass, const std::string &msg) {
    if (!failed) {
      failed = true;
      violation.vclass = vclass;
      violation.message = msg;
    }
  }
};

std::string fmt(const char *f, ...) {
  char buf[512];
  va_list ap;
  va_start(ap, f);
  vsnprintf(buf, sizeof buf, f, ap);
  va_end(ap);
  return buf;
}

// release a popped task: checks + unlock + free the slot
void run_popped_task(World &w, int me, size_t t, int hold, const char *how) {
  if (t >= (size_t)w.pool_size) {
    w.fail("bad-task", fmt("%s returned task index %zu outside the pool", how, t));
    return;
  }
  World::TaskInfo &ti = w.tinfo[t];
  if (w.pool_owner[t] != QUEUED || !ti.queued) {
    w.fail("task-twice",
           fmt("%s by client %d returned task slot %zu which is not queued "
               "(owner %d): handed out twice or never added",
               how, me, t, w.pool_owner[t]));
    return;
  }
  Task &task = (*w.pool)[t];
  if ((long)task.get_subgrid() != ti.uid) {
    w.fail("task-corrupt", fmt("%s returned slot %zu with payload %zu, expected "
                               "%ld",
                               how, t, task.get_subgrid(), ti.uid));
    return;
  }
  ti.queued = false;
  --w.queued_total;
  w.pool_owner[t] = me;
  // exclusive ownership of all declared resources at the moment of hand-out
  const int rs[2] = {ti.r0, ti.r1};
  for (int k = 0; k < 2; ++k) {
    if (rs[k] < 0)
      continue;
    int holder = lock_holder(&w.res[rs[k]]);
    if (holder != me) {
      w.fail("task-without-resource",
             fmt("%s handed task %ld to client %d without resource %d (lock "
                 "holder %d)",
                 how, ti.uid, me, rs[k], holder));
      return;
    }
    for (int c = 0; c < w.nclients; ++c) {
      if (c == me || w.executing[c] < 0)
        continue;
      const World::TaskInfo &to = w.tinfo[w.executing[c]];
      if (to.r0 == rs[k] || to.r1 == rs[k]) {
        w.fail("resource-shared",
               fmt("%s handed task %ld (resource %d) to client %d while client "
                   "%d executes task %ld with the same resource",
                   how, ti.uid, rs[k], me, c, to.uid));
        return;
      }
    }
  }
  w.executing[me] = (int)t;
  ++w.stats["tasks_executed"];
  for (int k = 0; k < hold; ++k)
    harness_yield(&w);
  // belief ends before the release starts
  w.executing[me] = -1;
  task.unlock_dependency();
  w.pool_owner[t] = FREE_SLOT;
  w.pool->free_element(t);
}

void check_no_resource_held(World &w, int me, const char *how) {
  for (int r = 0; r < w.nres; ++r) {
    if (lock_holder(&w.res[r]) == me) {
      w.fail("rollback",
             fmt("%s by client %d found no task but left resource lock %d "
                 "held",
                 how, me, r));
      return;
    }
  }
}

void quiescent_checks(World &w, int me, bool final) {
  ++w.stats["quiescent_checks"];
  // (4) occupancy == slots held
  size_t held = 0;
  for (int o : w.pool_owner)
    if (o != FREE_SLOT)
      ++held;
  if (w.pool->get_number_of_active_elements() != held) {
    w.fail("occupancy", fmt("pool occupancy count %zu but %zu slots are held",
                            w.pool->get_number_of_active_elements(), held));
    return;
  }
  size_t sheld = 0;
  for (int o : w.small_owner)
    if (o != FREE_SLOT)
      ++sheld;
  if (w.small->get_number_of_active_elements() != sheld) {
    w.fail("occupancy",
           fmt("small pool occupancy count %zu but %zu slots are held",
               w.small->get_number_of_active_elements(), sheld));
    return;
  }
  size_t bheld = 0;
  for (int o : w.buf_owner)
    if (o != FREE_SLOT)
      ++bheld;
  if (w.bufs->get_number_of_active_buffers() != bheld) {
    w.fail("occupancy",
           fmt("memory space occupancy count %zu but %zu buffers are held",
               w.bufs->get_number_of_active_buffers(), bheld));
    return;
  }
  // no task executes at a barrier: all resources must be free
  for (int r = 0; r < w.nres; ++r) {
    int h = lock_holder(&w.res[r]);
    if (h != -1) {
      w.fail("lock-leak", fmt("resource lock %d still held by client %d while "
                              "no task is in progress",
                              r, h));
      return;
    }
    if (!w.res[r].try_lock()) {
      w.fail("lock-leak", fmt("resource lock %d cannot be taken while no task "
                              "is in progress",
                              r));
      return;
    }
    w.res[r].unlock();
  }
  // (5) a queue that contains a task whose resources are free must hand one
  // out; at the end every queued task must come out exactly once
  for (int q = -1; q < w.nclients && !w.failed; ++q) {
    TaskQueue &queue = q < 0 ? *w.shared : *w.queues[q];
    long expected = 0;
    for (auto &ti : w.tinfo)
      if (ti.queued && ti.queue == q)
        ++expected;
    long todo = final ? expected : (expected > 0 ? 1 : 0);
    for (long k = 0; k < todo && !w.failed; ++k) {
      size_t t = queue.get_task(*w.pool);
      if (t == NO_TASK) {
        w.fail("task-lost", fmt("queue %d holds %ld task(s) with free "
                                "resources but get_task found none",
                                q, expected - k));
        return;
      }
      run_popped_task(w, me, t, 0, "quiescent get_task");
    }
    if (final && !w.failed) {
      size_t t = queue.get_task(*w.pool);
      if (t != NO_TASK) {
        w.fail("task-twice", fmt("queue %d handed out task slot %zu although "
                                 "all its tasks were already handed out",
                                 q, t));
        return;
      }
      if (queue.size() != 0) {
        w.fail("task-lost", fmt("queue %d reports size %zu after all tasks "
                                "were handed out",
                                q, queue.size()));
        return;
      }
    }
  }
}

void barrier(World &w, int me, bool final) {
  const long my_gen = w.barrier_gen;
  if (++w.barrier_count == w.nclients) {
    if (!w.failed)
      quiescent_checks(w, me, final);
    w.barrier_count = 0;
    ++w.barrier_gen;
    mark_progress();
    return;
  }
  while (w.barrier_gen == my_gen)
    harness_yield(&w.barrier_gen);
  mark_progress();
  global_progress();
  (void)me;
}

void client(World &w, int me, const std::vector< long > &prog) {
  std::vector< size_t > &hp = w.held_pool[me];
  std::vector< size_t > &hs = w.held_small[me];
  std::vector< size_t > &hb = w.held_buf[me];
  size_t nbar_seen = 0;
  for (size_t pc = 0; pc + 3 <= prog.size(); pc += 3) {
    const long op = prog[pc], a = prog[pc + 1], b = prog[pc + 2];
    if (op == OP_BARRIER) {
      ++nbar_seen;
      // a raw lock is never held across a barrier (another client's blocking
      // lock() would wait for a holder that waits for it)
      if (!w.failed && w.held_raw[me] >= 0) {
        int l = w.held_raw[me];
        w.held_raw[me] = -1;
        w.raw_holder[l] = -1;
        w.raw[l].unlock();
      }
      // nor are slots of the pool that fills up (a get_free_element_safe that
      // raced with the last taker spins until somebody frees a slot)
      while (!w.failed && !hs.empty()) {
        size_t idx = hs.back();
        hs.pop_back();
        w.small_owner[idx] = FREE_SLOT;
        w.small->free_element(idx);
        --w.small_unavailable;
      }
      barrier(w, me, false);
      continue;
    }
    if (w.failed)
      continue; // keep arriving at barriers so that nobody is stuck
    switch (op) {
    case OP_GET: {
      if ((int)hp.size() >= w.cap)
        break;
      size_t idx = w.pool->get_free_element();
      if (idx >= (size_t)w.pool_size) {
        w.fail("bad-slot", fmt("get_free_element returned %zu >= size", idx));
        break;
      }
      if (w.pool_owner[idx] != FREE_SLOT) {
        w.fail("slot-twice",
               fmt("get_free_element gave slot %zu to client %d while owner is "
                   "%d",
                   idx, me, w.pool_owner[idx]));
        break;
      }
      w.pool_owner[idx] = me;
      hp.push_back(idx);
      ++w.stats["pool_gets"];
      break;
    }
    case OP_FREE: {
      if (hp.empty())
        break;
      size_t k = (size_t)a % hp.size();
      size_t idx = hp[k];
      hp.erase(hp.begin() + (long)k);
      w.pool_owner[idx] = FREE_SLOT;
      w.pool->free_element(idx);
      break;
    }
    case OP_SGET: {
      // pool that fills up. "full" is only legitimate if, at some instant of
      // the call, every slot could have been unavailable: U = slots owned +
      // frees in progress + other gets in progress reached the pool size.
      // Not called while holding a raw lock: the call may spin until another
      // client frees a slot, and that client may be waiting for the lock.
      if (w.held_raw[me] >= 0)
        break;
      ++w.small_unavailable;
      w.sget_active[me] = true;
      w.sget_peak[me] = 0;
      for (int c2 = 0; c2 < w.nclients; ++c2)
        if (w.sget_active[c2] && w.small_unavailable - 1 > w.sget_peak[c2])
          w.sget_peak[c2] = w.small_unavailable - 1;
      size_t idx = w.small->get_free_element_safe();
      w.sget_active[me] = false;
      if (idx == (size_t)w.small_size) {
        --w.small_unavailable;
        if (w.sget_peak[me] < w.small_size) {
          w.fail("full-but-free",
                 fmt("get_free_element_safe reported a full pool to client %d "
                     "although at most %ld of %d slots could be unavailable "
                     "during the call",
                     me, w.sget_peak[me], w.small_size));
          break;
        }
        ++w.stats["small_full"];
        break;
      }
      if (idx > (size_t)w.small_size) {
        w.fail("bad-slot",
               fmt("get_free_element_safe returned %zu > size", idx));
        break;
      }
      if (w.small_owner[idx] != FREE_SLOT) {
        w.fail("slot-twice",
               fmt("get_free_element_safe gave slot %zu to client %d while "
                   "owner is %d",
                   idx, me, w.small_owner[idx]));
        break;
      }
      w.small_owner[idx] = me;
      hs.push_back(idx);
      ++w.stats["small_gets"];
      break;
    }
    case OP_SFREE: {
      if (hs.empty())
        break;
      size_t k = (size_t)a % hs.size();
      size_t idx = hs[k];
      hs.erase(hs.begin() + (long)k);
      w.small_owner[idx] = FREE_SLOT;
      w.small->free_element(idx);
      --w.small_unavailable; // only now the slot is certainly available
      break;
    }
    case OP_BGET: {
      if ((int)hb.size() + 1 >= w.bufcap)
        break;
      size_t idx = w.bufs->get_free_buffer();
      if (idx >= (size_t)w.nbufs) {
        w.fail("bad-slot",
               fmt("get_free_buffer returned %zu although capacity was "
                   "guaranteed",
                   idx));
        break;
      }
      if (w.buf_owner[idx] != FREE_SLOT) {
        w.fail("slot-twice", fmt("get_free_buffer gave buffer %zu to client %d "
                                 "while owner is %d",
                                 idx, me, w.buf_owner[idx]));
        break;
      }
      if ((*w.bufs)[idx].size() != 0) {
        w.fail("buffer-dirty", fmt("fresh buffer %zu has size %u", idx,
                                   (unsigned)(*w.bufs)[idx].size()));
        break;
      }
      w.buf_owner[idx] = me;
      w.buf_contents[idx].clear();
      w.buf_subgrid[idx] = w.next_uid++;
      (*w.bufs)[idx].set_subgrid_index((size_t)w.buf_subgrid[idx]);
      (*w.bufs)[idx].set_direction((int)(w.buf_subgrid[idx] % 27));
      hb.push_back(idx);
      ++w.stats["buf_gets"];
      break;
    }
    case OP_BADD: {
      if (hb.empty() || (int)hb.size() + 1 > w.bufcap)
        break;
      size_t k = (size_t)a % hb.size();
      size_t idx = hb[k];
      if (w.buf_contents[idx].size() >= PHOTONBUFFER_SIZE)
        break; // already full: the engine never adds to a full buffer
      PhotonBuffer local;
      unsigned n = 1 + (unsigned)(b % PHOTONBUFFER_SIZE);
      std::vector< double > ids;
      for (unsigned p = 0; p < n; ++p) {
        unsigned s = local.get_next_free_photon();
        double id = (double)w.next_uid++;
        local[s].set_weight(id);
        local[s].set_energy(-id);
        ids.push_back(id);
      }
      std::vector< double > expect = w.buf_contents[idx];
      expect.insert(expect.end(), ids.begin(), ids.end());
      size_t out = w.bufs->add_photons(idx, local);
      std::vector< double > first(
          expect.begin(),
          expect.begin() +
              (long)std::min< size_t >(expect.size(), PHOTONBUFFER_SIZE));
      std::vector< double > rest(expect.begin() + (long)first.size(),
                                 expect.end());
      auto check = [&](size_t bi, const std::vector< double > &want) {
        PhotonBuffer &pb = (*w.bufs)[bi];
        if (pb.size() != want.size()) {
          w.fail("photons-lost",
                 fmt("add_photons: buffer %zu has %u packets, expected %zu",
                     bi, (unsigned)pb.size(), want.size()));
          return;
        }
        for (size_t p = 0; p < want.size(); ++p)
          if (pb[p].get_weight() != want[p] || pb[p].get_energy() != -want[p]) {
            w.fail("photons-lost",
                   fmt("add_photons: buffer %zu packet %zu is %g, expected %g",
                       bi, p, pb[p].get_weight(), want[p]));
            return;
          }
      };
      if (expect.size() < PHOTONBUFFER_SIZE) {
        if (out != idx) {
          w.fail("overflow", fmt("add_photons started a new buffer although "
                                 "the target was not full"));
          break;
        }
        check(idx, first);
        w.buf_contents[idx] = first;
      } else {
        if (out == idx || out >= (size_t)w.nbufs) {
          w.fail("overflow", fmt("add_photons filled buffer %zu but returned "
                                 "%zu instead of a fresh buffer",
                                 idx, out));
          break;
        }
        if (w.buf_owner[out] != FREE_SLOT) {
          w.fail("slot-twice",
                 fmt("add_photons overflowed into buffer %zu owned by %d", out,
                     w.buf_owner[out]));
          break;
        }
        w.buf_owner[out] = me;
        hb.push_back(out);
        check(idx, first);
        if (!w.failed)
          check(out, rest);
        w.buf_contents[idx] = first;
        w.buf_contents[out] = rest;
        w.buf_subgrid[out] = w.buf_subgrid[idx];
        if ((*w.bufs)[out].get_subgrid_index() != (size_t)w.buf_subgrid[idx] ||
            (*w.bufs)[out].get_direction() != (int)(w.buf_subgrid[idx] % 27)) {
          w.fail("overflow", fmt("overflow buffer %zu did not inherit subgrid/"
                                 "direction of buffer %zu",
                                 out, idx));
        }
        ++w.stats["buf_overflows"];
      }
      break;
    }
    case OP_BFREE: {
      if (hb.empty())
        break;
      size_t k = (size_t)a % hb.size();
      size_t idx = hb[k];
      hb.erase(hb.begin() + (long)k);
      w.buf_owner[idx] = FREE_SLOT;
      w.bufs->free_buffer(idx);
      break;
    }
    case OP_TADD: {
      if ((int)hp.size() >= w.cap || w.queued_total >= w.qcap)
        break;
      ++w.queued_total; // reserve
      size_t idx = w.pool->get_free_element();
      if (idx >= (size_t)w.pool_size || w.pool_owner[idx] != FREE_SLOT) {
        w.fail("slot-twice", fmt("get_free_element gave slot %zu to client %d "
                                 "while owner is %d",
                                 idx, me,
                                 idx < (size_t)w.pool_size ? w.pool_owner[idx]
                                                           : -9));
        break;
      }
      w.pool_owner[idx] = me;
      World::TaskInfo &ti = w.tinfo[idx];
      ti.uid = w.next_uid++;
      int nr = (int)(b % 3);
      ti.r0 = ti.r1 = -1;
      if (w.nres == 0)
        nr = 0;
      if (nr >= 1)
        ti.r0 = (int)((b / 3) % w.nres);
      if (nr >= 2 && w.nres >= 2) {
        ti.r1 = (int)((b / 3 / w.nres) % w.nres);
        if (ti.r1 == ti.r0)
          ti.r1 = (ti.r0 + 1) % w.nres;
        if (ti.r1 < ti.r0)
          std::swap(ti.r0, ti.r1);
      }
      Task &task = (*w.pool)[idx];
      task.set_type(TASKTYPE_PHOTON_TRAVERSAL);
      task.set_subgrid((size_t)ti.uid);
      task.set_buffer((size_t)ti.uid);
      task.set_dependency(ti.r0 >= 0 ? &w.res[ti.r0] : nullptr);
      task.set_extra_dependency(ti.r1 >= 0 ? &w.res[ti.r1] : nullptr);
      int q = (int)(a % (w.nclients + 1)) - 1;
      ti.queue = q;
      ti.queued = true;
      w.pool_owner[idx] = QUEUED;
      (q < 0 ? *w.shared : *w.queues[q]).add_task(idx);
      ++w.stats["tasks_added"];
      break;
    }
    case OP_TGET:
    case OP_TTRY:
    case OP_TSCHED: {
      size_t t;
      const char *how;
      if (op == OP_TGET) {
        int q = (int)(a % (w.nclients + 1)) - 1;
        t = (q < 0 ? *w.shared : *w.queues[q]).get_task(*w.pool);
        how = "get_task";
      } else if (op == OP_TTRY) {
        int q = (int)(a % (w.nclients + 1)) - 1;
        t = (q < 0 ? *w.shared : *w.queues[q]).try_get_task(*w.pool);
        how = "try_get_task";
      } else {
        t = w.scheduler->get_task(me);
        how = "Scheduler::get_task";
      }
      if (t == NO_TASK) {
        check_no_resource_held(w, me, how);
        ++w.stats["pops_empty"];
      } else {
        run_popped_task(w, me, t, (int)(b % 6), how);
      }
      break;
    }
    case OP_LOCK:
    case OP_TRYLOCK: {
      if (w.held_raw[me] >= 0 || w.nraw == 0)
        break;
      int l = (int)(a % w.nraw);
      bool ok = true;
      if (op == OP_LOCK)
        w.raw[l].lock();
      else
        ok = w.raw[l].try_lock();
      if (ok) {
        if (w.raw_holder[l] != -1) {
          w.fail("lock-two-holders",
                 fmt("lock %d acquired by client %d while client %d holds it",
                     l, me, w.raw_holder[l]));
          break;
        }
        w.raw_holder[l] = me;
        w.held_raw[me] = l;
        ++w.stats["raw_locks"];
      } else {
        ++w.stats["raw_trylock_failed"];
      }
      break;
    }
    case OP_UNLOCK: {
      if (w.held_raw[me] < 0)
        break;
      int l = w.held_raw[me];
      w.held_raw[me] = -1;
      w.raw_holder[l] = -1;
      w.raw[l].unlock();
      break;
    }
    case OP_CNT: {
      int kind = (int)(a % 4);
      if (kind == 0) {
        w.inc_returns.push_back(w.counter_inc.pre_increment());
      } else if (kind == 1) {
        size_t v = 1 + (size_t)(b % 7);
        w.add_total += (long)v;
        w.counter_add.post_add(v);
      } else if (kind == 2) {
        size_t v = 1 + (size_t)(b % 5);
        // never below zero: add first
        w.add_total += (long)v;
        w.counter_add.pre_add(v);
        w.add_total -= (long)v;
        w.counter_add.pre_subtract(v);
      } else {
        size_t v = (size_t)b;
        if (v > w.max_arg)
          w.max_arg = v;
        w.counter_max.max(v);
      }
      break;
    }
    case OP_YIELD:
      for (long k = 0; k < 1 + b % 4; ++k)
        harness_yield(&w);
      break;
    default:
      break;
    }
    mark_progress();
    global_progress();
  }
  // release everything, then final barrier
  if (!w.failed) {
    if (w.held_raw[me] >= 0) {
      int l = w.held_raw[me];
      w.held_raw[me] = -1;
      w.raw_holder[l] = -1;
      w.raw[l].unlock();
    }
    while (!hp.empty()) {
      size_t idx = hp.back();
      hp.pop_back();
      w.pool_owner[idx] = FREE_SLOT;
      w.pool->free_element(idx);
    }
    while (!hs.empty()) {
      size_t idx = hs.back();
      hs.pop_back();
      w.small_owner[idx] = FREE_SLOT;
      w.small->free_element(idx);
      --w.small_unavailable;
    }
    while (!hb.empty()) {
      size_t idx = hb.back();
      hb.pop_back();
      w.buf_owner[idx] = FREE_SLOT;
      w.bufs->free_buffer(idx);
    }
  }
  barrier(w, me, true);
  (void)nbar_seen;
}

class EContEngine : public Engine {
public:
  std::string property() const { return "C08"; }
  void budget(const std::string &tier, uint64_t &runs, double &seconds) const {
    if (tier == "quick") {
      runs = 400000;
      seconds = 75;
    } else {
      runs = 20000000;
      seconds = 1500;
    }
  }
  int watchdog_seconds() const { return 30; }

  Json generate(uint64_t run_seed, const std::string &tier, uint64_t index) {
    Rng r(run_seed);
    Json c = Json::object();
    int nclients = (int)r.range(2, 6);
    if (index % 50 == 49)
      nclients = 1;
    int cap = (int)r.range(1, 3);
    int bufcap = (int)r.range(2, 4);
    int qcap = (int)r.range(1, 6);
    c["clients"] = nclients;
    c["cap"] = cap;
    c["bufcap"] = bufcap;
    c["qcap"] = qcap;
    // pools: just sufficient up to ample
    c["pool_slack"] = (int)r.range(0, 3);
    c["small"] = (int)r.range(1, 4);
    c["buf_slack"] = (int)r.range(0, 2);
    c["nres"] = (int)r.range(0, 4);
    c["nraw"] = (int)r.range(0, 3);
    int phases = (int)r.range(1, 4);
    int ops = (int)r.range(4, tier == "quick" ? 40 : 120);
    // swarm: a random subset of operation kinds is enabled
    std::vector< int > enabled;
    for (int o = 0; o < OP_NUMBER; ++o)
      if (r.chance(0.7))
        enabled.push_back(o);
    if (enabled.empty())
      enabled.push_back(OP_GET);
    Json progs = Json::array();
    for (int cl = 0; cl < nclients; ++cl) {
      Json p = Json::array();
      for (int ph = 0; ph < phases; ++ph) {
        int n = (int)r.range(ops / 2, ops);
        for (int k = 0; k < n; ++k) {
          p.push(enabled[r.below(enabled.size())]);
          p.push((long long)r.below(1000));
          p.push((long long)r.below(1000));
        }
        if (ph + 1 < phases) {
          p.push((int)OP_BARRIER);
          p.push(0);
          p.push(0);
        }
      }
      progs.push(p);
    }
    c["programs"] = progs;
    Sched s = Sched::draw(r, 3000000);
    c["sched"] = s.to_json();
    return c;
  }

  Outcome execute(const Json &c) {
    Outcome out;
    World w;
    w.nclients = (int)c.at("clients").as_int(2);
    w.cap = (int)c.at("cap").as_int(2);
    w.bufcap = (int)c.at("bufcap").as_int(2);
    w.qcap = (int)c.at("qcap").as_int(2);
    w.pool_size = w.nclients * w.cap + w.qcap + w.nclients + 1 +
                  (int)c.at("pool_slack").as_int(0);
    w.small_size = (int)c.at("small").as_int(2);
    w.nbufs = w.nclients * w.bufcap + (int)c.at("buf_slack").as_int(0);
    w.nres = (int)c.at("nres").as_int(2);
    w.nraw = (int)c.at("nraw").as_int(1);
    std::vector< std::vector< long > > progs;
    size_t nbar = 0;
    for (int cl = 0; cl < w.nclients; ++cl) {
      std::vector< long > p;
      size_t nb = 0;
      if ((size_t)cl < c.at("programs").a.size())
        for (auto &e : c.at("programs").a[(size_t)cl].a)
          p.push_back((long)e.as_int());
      p.resize(p.size() / 3 * 3);
      for (size_t k = 0; k < p.size(); k += 3)
        if (p[k] == OP_BARRIER)
          ++nb;
      if (cl == 0)
        nbar = nb;
      // equalise the number of barriers (needed after shrinking)
      while (nb < nbar) {
        p.push_back(OP_BARRIER);
        p.push_back(0);
        p.push_back(0);
        ++nb;
      }
      if (nb > nbar) {
        std::vector< long > q;
        size_t seen = 0;
        for (size_t k = 0; k < p.size(); k += 3) {
          if (p[k] == OP_BARRIER && ++seen > nbar)
            continue;
          q.push_back(p[k]);
          q.push_back(p[k + 1]);
          q.push_back(p[k + 2]);
        }
        p = q;
      }
      progs.push_back(p);
    }

    Sched sched = Sched::from_json(c.at("sched"));
    run_begin(sched, nullptr);

    w.pool.reset(new ThreadSafeVector< Task >((size_t)w.pool_size, "pool"));
    w.small.reset(new ThreadSafeVector< Task >((size_t)w.small_size, "small"));
    w.bufs.reset(new MemorySpace((size_t)w.nbufs));
    for (int cl = 0; cl < w.nclients; ++cl)
      w.queues.push_back(new TaskQueue((size_t)w.qcap + 1, "q"));
    w.shared.reset(new TaskQueue((size_t)w.qcap + 1, "shared"));
    w.res = std::vector< ThreadLock >((size_t)w.nres);
    w.raw = std::vector< ThreadLock >((size_t)w.nraw);
    w.scheduler.reset(new Scheduler(*w.pool, w.queues, *w.shared));
    w.pool_owner.assign((size_t)w.pool_size, FREE_SLOT);
    w.small_owner.assign((size_t)w.small_size, FREE_SLOT);
    w.buf_owner.assign((size_t)w.nbufs, FREE_SLOT);
    w.tinfo.assign((size_t)w.pool_size, World::TaskInfo());
    w.buf_contents.assign((size_t)w.nbufs, std::vector< double >());
    w.buf_subgrid.assign((size_t)w.nbufs, 0);
    w.raw_holder.assign((size_t)w.nraw, -1);
    w.executing.assign((size_t)w.nclients, -1);
    w.held_pool.assign((size_t)w.nclients, std::vector< size_t >());
    w.held_small.assign((size_t)w.nclients, std::vector< size_t >());
    w.held_buf.assign((size_t)w.nclients, std::vector< size_t >());
    w.held_raw.assign((size_t)w.nclients, -1);
    w.sget_active.assign((size_t)w.nclients, 0);
    w.sget_peak.assign((size_t)w.nclients, 0);

    bool finished = guarded([&]() {
      parallel(w.nclients, [&](int me) { client(w, me, progs[(size_t)me]); });
    });

    if (finished && !w.failed) {
      // (6) released slots are available again; counters lost no update
      std::set< size_t > got;
      for (int k = 0; k < w.pool_size && !w.failed; ++k) {
        size_t idx = w.pool->get_free_element_safe();
        if (idx >= (size_t)w.pool_size || !got.insert(idx).second)
          w.fail("slot-lost", fmt("after everything was released only %d of %d "
                                  "slots could be taken again (got %zu)",
                                  k, w.pool_size, idx));
      }
      if (!w.failed && w.pool->get_free_element_safe() != (size_t)w.pool_size)
        w.fail("slot-twice", "a full pool handed out one more slot");
      if (!w.failed)
        for (size_t idx : got)
          w.pool->free_element(idx);
      if (!w.failed && !w.pool->is_empty())
        w.fail("occupancy", "pool not empty after releasing everything");
      std::vector< size_t > inc = w.inc_returns;
      std::sort(inc.begin(), inc.end());
      for (size_t k = 0; k < inc.size() && !w.failed; ++k)
        if (inc[k] != k + 1)
          w.fail("lost-update", fmt("pre_increment return values are not "
                                    "{1..%zu}: position %zu holds %zu",
                                    inc.size(), k, inc[k]));
      if (!w.failed && w.counter_inc.value() != inc.size())
        w.fail("lost-update", fmt("increment counter is %zu after %zu "
                                  "increments",
                                  w.counter_inc.value(), inc.size()));
      if (!w.failed && (long)w.counter_add.value() != w.add_total)
        w.fail("lost-update", fmt("add counter is %zu, sum of arguments %ld",
                                  w.counter_add.value(), w.add_total));
      if (!w.failed && w.counter_max.value() != w.max_arg)
        w.fail("lost-update", fmt("max counter is %zu, maximum argument %zu",
                                  w.counter_max.value(), w.max_arg));
    }
    RunStats rs = run_end();
    for (auto q : w.queues)
      delete q;

    if (!finished) {
      out.vclass = "nontermination";
      out.message = "clients did not finish within the step budget (fair "
                    "phase included): " +
                    rs.abort_reason;
    } else if (w.failed) {
      out.vclass = w.violation.vclass;
      out.message = w.violation.message;
    }
    out.restart_worker = !finished;
    out.hash = rs.hash;
    out.executed = rs.executed;
    out.nontrivial = w.nclients >= 2 && rs.switches > 0;
    Json st = Json::object();
    st["points"] = (long long)rs.points;
    st["switches"] = (long long)rs.switches;
    st["fair_phase_runs"] = rs.fair_phase ? 1 : 0;
    for (auto &kv : w.stats)
      st[kv.first] = kv.second;
    st[std::string("policy_") + std::to_string(sched.policy)] = 1;
    st["max_points_per_run"] = (long long)rs.points;
    out.stats = st;
    out.signature = Json::object();
    return out;
  }

  std::vector< Json > shrink(const Json &c) {
    std::vector< Json > v;
    const Json &progs = c.at("programs");
    int ncl = (int)c.at("clients").as_int();
    // drop a client
    if (ncl > 1) {
      for (int d = ncl - 1; d >= 0; --d) {
        Json n = c;
        n["clients"] = ncl - 1;
        Json np = Json::array();
        for (int k = 0; k < ncl; ++k)
          if (k != d && (size_t)k < progs.a.size())
            np.push(progs.a[(size_t)k]);
        n["programs"] = np;
        v.push_back(n);
      }
    }
    // drop chunks of ops of one client
    for (int cl = 0; cl < ncl && (size_t)cl < progs.a.size(); ++cl) {
      const Json &p = progs.a[(size_t)cl];
      size_t nops = p.a.size() / 3;
      for (size_t chunk = nops / 2; chunk >= 1; chunk /= 2) {
        for (size_t start = 0; start + chunk <= nops; start += chunk) {
          Json n = c;
          Json q = Json::array();
          for (size_t k = 0; k < nops; ++k)
            if (k < start || k >= start + chunk) {
              q.push(p.a[3 * k]);
              q.push(p.a[3 * k + 1]);
              q.push(p.a[3 * k + 2]);
            }
          n["programs"].a[(size_t)cl] = q;
          v.push_back(n);
        }
        if (chunk == 1)
          break;
      }
    }
    return v;
  }

  void describe(Json &cov, Json &assumptions) const {
    cov["rule"] =
        "each run = generated client programs (2-6 simulated threads, "
        "operations on a slot pool, a pool that fills up, a MemorySpace, "
        "per-client and shared TaskQueues with 0-2 resource locks per task, "
        "the stealing Scheduler, raw ThreadLocks, AtomicValue counters) "
        "executed under one seeded schedule; every AtomicValue operation is a "
        "scheduling point. distinct = distinct event-log hash (schedule + "
        "values of all atomic operations); non-trivial = >=2 clients and >=1 "
        "context switch inside container operations";
    Json comp = Json::object();
    comp["real"] = "AtomicValue, ThreadLock, ThreadSafeVector, TaskQueue, "
                   "Task, MemorySpace, PhotonBuffer, Scheduler (headers from "
                   "/repo/src, PHOTONBUFFER_SIZE=5 via hook H2)";
    comp["stub"] = "OpenMP runtime replaced by detsim fibers; workload "
                   "synthetic";
    cov["components"] = comp;
    cov["fault_kinds"] =
        "preemption at every atomic operation (policies uniform/burst/pct/"
        "rr), pools sized 'just sufficient', pool that fills up, queue lock "
        "contention (try_get_task), stealing, two-resource tasks (rollback)";
    assumptions.push("sequential consistency at the granularity of "
                     "AtomicValue operations (one scheduling point per "
                     "operation); weak-memory effects are not modelled");
    assumptions.push("blocking get_free_element is only called when a free "
                     "slot is guaranteed to exist (documented precondition)");
  }
};

} // namespace

int main(int argc, char **argv) {
#ifdef DETSIM_TSHIM
  detsim::set_atomic_level(true);
#endif
  EContEngine e;
  return check_main(argc, argv, e);
}
