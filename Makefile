# Build of the verification harness. Everything is rebuilt from /repo's current
# working tree (dependency files track every /repo header), with the hooks on.
REPO ?= /repo
ROOT := $(abspath $(dir $(lastword $(MAKEFILE_LIST))))
B ?= $(ROOT)/build
GEN := $(B)/gen
DATA := $(B)/data
CXX := g++

HDF5_INC := -I/usr/include/hdf5/serial
HDF5_LIB := -L/usr/lib/x86_64-linux-gnu/hdf5/serial -lhdf5

BASEFLAGS := -fopenmp -DCMACIONIZE_VERIF -I$(GEN) -I$(REPO)/src $(HDF5_INC) \
             -Wall -Wno-unused-variable -Wno-unused-but-set-variable
REPOSTD := -std=c++11
HARNSTD := -std=c++14

FLAGS_plain := -O2 -DNDEBUG
FLAGS_small := -O2 -DNDEBUG -DCMACIONIZE_VERIF_PHOTONBUFFER_SIZE=13u
FLAGS_tiny  := -O2 -DNDEBUG -DCMACIONIZE_VERIF_PHOTONBUFFER_SIZE=5u
FLAGS_asan  := -O1 -g -DNDEBUG -fno-omit-frame-pointer -fsanitize=address,undefined \
               -fno-sanitize-recover=undefined -DCMACIONIZE_VERIF_PHOTONBUFFER_SIZE=13u
FLAGS_vg    := -O1 -g -DNDEBUG -fno-omit-frame-pointer -DDETSIM_VALGRIND -DCMACIONIZE_VERIF_PHOTONBUFFER_SIZE=13u
FLAGS_tshim := -O2 -DNDEBUG -DCMACIONIZE_VERIF_PHOTONBUFFER_SIZE=5u
# engine objects of the tshim variant are compiled with -fsanitize=thread and
# linked against detsim/tsanshim.cpp instead of libtsan
ENGFLAGS_tshim := -fsanitize=thread -DDETSIM_TSHIM
EXTRA_DETSIM_tshim := tsanshim
LDFLAGS_tshim :=
LDFLAGS_plain :=
LDFLAGS_small :=
LDFLAGS_tiny :=
LDFLAGS_vg :=
LDFLAGS_asan := -fsanitize=address,undefined

# sources of the task-based engine (SharedEngine + TaskBasedEngine of the
# CMake build, generated files included)
ENGINE_SRC := AsciiFileDensityFunction AsciiFileDensityGridWriter \
  AsciiFileTablePhotonSourceDistribution ChargeTransferRates CommandLineOption \
  CommandLineParser DeRijckeRadiativeCooling FaucherGiguerePhotonSourceSpectrum \
  HeliumLymanContinuumSpectrum HeliumTwoPhotonContinuumSpectrum \
  HydrogenLymanContinuumSpectrum InterpolatedDensityFunction \
  IonizationStateCalculator LineCoolingData MaskedPhotonSourceSpectrum \
  MultiTracker ParameterFile Pegase3PhotonSourceSpectrum \
  PhantomSnapshotDensityFunction PhotonSource PhysicalDiffuseReemissionHandler \
  PlanckPhotonSourceSpectrum PopStarPhotonSourceSpectrum Signals \
  SPHNGSnapshotDensityFunction SPHNGVoronoiGeneratorDistribution \
  TemperatureCalculator VernerCrossSections VernerRecombinationRates \
  WMBasicPhotonSourceSpectrum AmunSnapshotDensityFunction \
  CastelliKuruczPhotonSourceSpectrum CMacIonizeSnapshotDensityFunction \
  CMacIonizeVoronoiGeneratorDistribution FLASHSnapshotDensityFunction \
  GadgetDensityGridWriter GadgetSnapshotDensityFunction \
  GadgetSnapshotPhotonSourceDistribution \
  TaskBasedIonizationSimulation TaskBasedRadiationHydrodynamicsSimulation
GEN_SRC := CompilerInfo ConfigurationInfo

DETSIM_SRC := sim driver simlibc
LIBS_erng := -lgsl -lgslcblas

VARIANTS := plain small tiny asan tshim vg

.PHONY: all gen cont engines clean FORCE
all: cont

FORCE:

# ---- generated configuration -------------------------------------------------
gen: FORCE
	@mkdir -p $(GEN) $(DATA)
	@python3 $(ROOT)/tools/gen_config.py $(REPO) $(GEN) $(DATA)

$(GEN)/Configuration.hpp: gen

# ---- per-variant rules -------------------------------------------------------
define VARIANT_RULES
$(B)/$(1)/repo/%.o: $(REPO)/src/%.cpp | gen
	@mkdir -p $$(dir $$@)
	$(CXX) $(REPOSTD) $(BASEFLAGS) $$(FLAGS_$(1)) -MMD -MP -c $$< -o $$@
$(B)/$(1)/gen/%.o: $(GEN)/%.cpp | gen
	@mkdir -p $$(dir $$@)
	$(CXX) $(REPOSTD) $(BASEFLAGS) $$(FLAGS_$(1)) -MMD -MP -c $$< -o $$@
$(B)/$(1)/detsim/%.o: $(ROOT)/detsim/%.cpp | gen
	@mkdir -p $$(dir $$@)
	$(CXX) $(HARNSTD) $(BASEFLAGS) $$(FLAGS_$(1)) -MMD -MP -c $$< -o $$@
$(B)/$(1)/engines/%.o: $(ROOT)/engines/%.cpp | gen
	@mkdir -p $$(dir $$@)
	$(CXX) $(HARNSTD) $(BASEFLAGS) -fno-access-control $$(FLAGS_$(1)) $$(ENGFLAGS_$(1)) -MMD -MP -c $$< -o $$@
ENGINE_OBJ_$(1) := $$(addprefix $(B)/$(1)/repo/,$$(addsuffix .o,$(ENGINE_SRC))) \
                   $$(addprefix $(B)/$(1)/gen/,$$(addsuffix .o,$(GEN_SRC)))
DETSIM_OBJ_$(1) := $$(addprefix $(B)/$(1)/detsim/,$$(addsuffix .o,$(DETSIM_SRC) $$(EXTRA_DETSIM_$(1))))
$(B)/$(1)/libengine.a: $$(ENGINE_OBJ_$(1))
	@rm -f $$@
	ar rcs $$@ $$^
# header-only engines (containers, time line, random generator, restart files)
$(B)/$(1)/bin/econt $(B)/$(1)/bin/etl $(B)/$(1)/bin/erng: $(B)/$(1)/bin/%: $(B)/$(1)/engines/%.o $$(DETSIM_OBJ_$(1))
	@mkdir -p $$(dir $$@)
	$(CXX) $$(LDFLAGS_$(1)) -o $$@ $$^ $$(LIBS_$$*) -lpthread
$(B)/$(1)/bin/efs: $(B)/$(1)/engines/efs.o $$(DETSIM_OBJ_$(1)) $(B)/$(1)/detsim/fsim.o
	@mkdir -p $$(dir $$@)
	$(CXX) $$(LDFLAGS_$(1)) -rdynamic -o $$@ $$^ -ldl -lpthread
# whole-simulation engines; E-RHD also carries the simulated file layer (C14)
$(B)/$(1)/bin/erhd: $(B)/$(1)/engines/erhd.o $$(DETSIM_OBJ_$(1)) $(B)/$(1)/detsim/fsim.o $(B)/$(1)/libengine.a
	@mkdir -p $$(dir $$@)
	$(CXX) $$(LDFLAGS_$(1)) -rdynamic -o $$@ $$(filter %.o,$$^) $(B)/$(1)/libengine.a $(HDF5_LIB) -ldl -lpthread
$(B)/$(1)/bin/%: $(B)/$(1)/engines/%.o $$(DETSIM_OBJ_$(1)) $(B)/$(1)/libengine.a
	@mkdir -p $$(dir $$@)
	$(CXX) $$(LDFLAGS_$(1)) -o $$@ $$(filter %.o,$$^) $(B)/$(1)/libengine.a $(HDF5_LIB) -lpthread
-include $$(wildcard $(B)/$(1)/repo/*.d $(B)/$(1)/gen/*.d $(B)/$(1)/detsim/*.d $(B)/$(1)/engines/*.d)
endef
$(foreach v,$(VARIANTS),$(eval $(call VARIANT_RULES,$(v))))

.SECONDARY:

cont: $(B)/tshim/bin/econt

clean:
	rm -rf $(B)

# ---- setup: everything a fresh restore needs ---------------------------------
.PHONY: setup
setup: cont $(B)/small/bin/eion $(B)/plain/bin/etl $(B)/plain/bin/efs $(B)/plain/bin/erng $(B)/small/bin/erhd $(B)/asan/bin/eion $(B)/asan/bin/erhd $(B)/vg/bin/eion $(B)/vg/bin/erhd
	@$(ROOT)/tools/determinism.sh 32 > $(B)/determinism.log 2>&1 || (cat $(B)/determinism.log; false)
	@tail -3 $(B)/determinism.log
